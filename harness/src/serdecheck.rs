//! C20: data interchange round-trips (JSON / YAML / TOML modules, serde glue)

use crate::panics;
use koto::prelude::*;
use serde::{Deserialize, Serialize};
use serde_json::{Value, json};
use std::collections::BTreeMap;

pub struct Rng(u64);
impl Rng {
    pub fn new(seed: u64) -> Self {
        Self(seed.wrapping_mul(0x9E3779B97F4A7C15) | 1)
    }
    pub fn next(&mut self) -> u64 {
        let mut x = self.0;
        x ^= x << 13;
        x ^= x >> 7;
        x ^= x << 17;
        self.0 = x;
        x
    }
    pub fn below(&mut self, n: u64) -> u64 {
        self.next() % n.max(1)
    }
    pub fn chance(&mut self, percent: u64) -> bool {
        self.below(100) < percent
    }
}

const STRINGS: &[&str] = &[
    "", "a", "hello world", "quote\"inside", "single'quote", "back\\slash", "tab\there", "new\nline", "cr\r\nlf", "\u{7f}", "\u{1}", "é€😀", "e\u{301}",
    "true", "null", "false", "1", "1.5", "-0", "~", "- a", "a: b", "# not a comment", "[1, 2]", "{a: 1}", "  leading", "trailing  ", "0x10", "1e3", "yes", "no", ".inf", "2024-01-01",
    "\u{2028}", "\u{feff}bom", "key=value", "'", "\"", "\\n", "multi\n\nline\n",
];
const KEYS: &[&str] = &["a", "b", "key with space", "true", "1", "é", "", "k.dot", "q\"uote", "null", "x-y", "_u"];

fn gen_number(rng: &mut Rng) -> KValue {
    match rng.below(10) {
        0 => KValue::Number(0.into()),
        1 => KValue::Number((rng.next() as i64).into()),
        2 => KValue::Number(i64::MAX.into()),
        3 => KValue::Number(i64::MIN.into()),
        4 => {
            let base: i64 = 1 << 53;
            KValue::Number((base + rng.below(5) as i64 - 2).into())
        }
        5 => KValue::Number((rng.below(2001) as i64 - 1000).into()),
        6 => KValue::Number((-0.0f64).into()),
        7 => {
            let f = f64::from_bits(rng.next());
            if f.is_finite() { KValue::Number(f.into()) } else { KValue::Number(1e308.into()) }
        }
        8 => KValue::Number(((rng.below(2_000_001) as f64 - 1_000_000.0) / 1000.0).into()),
        _ => KValue::Number([1e308, 5e-324, 0.1, 1.5, 123456789.123456789, 1e21, 1e-7][rng.below(7) as usize].into()),
    }
}

fn gen_value(rng: &mut Rng, depth: usize, allow_null: bool) -> KValue {
    let leaf = depth == 0 || rng.chance(35);
    if leaf {
        return match rng.below(if allow_null { 5 } else { 4 }) {
            0 => KValue::Bool(rng.chance(50)),
            1 | 2 => gen_number(rng),
            3 => KValue::Str(STRINGS[rng.below(STRINGS.len() as u64) as usize].into()),
            _ => KValue::Null,
        };
    }
    let n = rng.below(6) as usize;
    match rng.below(3) {
        0 => KValue::List(KList::from_slice(&(0..n).map(|_| gen_value(rng, depth - 1, allow_null)).collect::<Vec<_>>())),
        1 => KValue::Tuple((0..n).map(|_| gen_value(rng, depth - 1, allow_null)).collect::<Vec<_>>().into()),
        _ => {
            let m = KMap::new();
            for _ in 0..n {
                let k = KEYS[rng.below(KEYS.len() as u64) as usize];
                m.insert(k, gen_value(rng, depth - 1, allow_null));
            }
            KValue::Map(m)
        }
    }
}

fn contains_null(v: &KValue) -> bool {
    match v {
        KValue::Null => true,
        KValue::List(l) => l.data().iter().any(contains_null),
        KValue::Tuple(t) => t.iter().any(contains_null),
        KValue::Map(m) => m.data().values().any(contains_null),
        _ => false,
    }
}

/// Structural comparison at the host boundary. Sequences are compared as sequences (list == tuple: the documented normal
/// form is that sequences come back as tuples), maps order-insensitively (as the language's own == does), numbers by
/// kind and bits.
fn same(a: &KValue, b: &KValue, path: &mut String) -> bool {
    match (a, b) {
        (KValue::Null, KValue::Null) => true,
        (KValue::Bool(x), KValue::Bool(y)) => x == y,
        (KValue::Number(x), KValue::Number(y)) => {
            if x.is_f64() != y.is_f64() {
                path.push_str(&format!(" number kind {x:?} vs {y:?}"));
                return false;
            }
            let ok = if x.is_f64() { f64::from(*x).to_bits() == f64::from(*y).to_bits() } else { i64::from(*x) == i64::from(*y) };
            if !ok {
                path.push_str(&format!(" number {x:?} vs {y:?}"));
            }
            ok
        }
        (KValue::Str(x), KValue::Str(y)) => {
            if x.as_str() != y.as_str() {
                path.push_str(&format!(" string {:?} vs {:?}", x.as_str(), y.as_str()));
                false
            } else {
                true
            }
        }
        (KValue::List(_) | KValue::Tuple(_), KValue::List(_) | KValue::Tuple(_)) => {
            let xs: Vec<KValue> = match a {
                KValue::List(l) => l.data().iter().cloned().collect(),
                KValue::Tuple(t) => t.iter().cloned().collect(),
                _ => unreachable!(),
            };
            let ys: Vec<KValue> = match b {
                KValue::List(l) => l.data().iter().cloned().collect(),
                KValue::Tuple(t) => t.iter().cloned().collect(),
                _ => unreachable!(),
            };
            if xs.len() != ys.len() {
                path.push_str(&format!(" sequence length {} vs {}", xs.len(), ys.len()));
                return false;
            }
            for (i, (x, y)) in xs.iter().zip(ys.iter()).enumerate() {
                if !same(x, y, path) {
                    path.push_str(&format!(" at [{i}]"));
                    return false;
                }
            }
            true
        }
        (KValue::Map(x), KValue::Map(y)) => {
            if x.len() != y.len() {
                path.push_str(&format!(" map size {} vs {}", x.len(), y.len()));
                return false;
            }
            for (k, v) in x.data().iter() {
                match y.data().get(k) {
                    Some(w) => {
                        if !same(v, w, path) {
                            path.push_str(&format!(" at key {:?}", k.value().type_as_string()));
                            return false;
                        }
                    }
                    None => {
                        path.push_str(" missing key");
                        return false;
                    }
                }
            }
            true
        }
        _ => {
            path.push_str(&format!(" kind {} vs {}", a.type_as_string(), b.type_as_string()));
            false
        }
    }
}

fn second_is_tuples(v: &KValue) -> bool {
    match v {
        KValue::List(_) => false,
        KValue::Tuple(t) => t.iter().all(second_is_tuples),
        KValue::Map(m) => m.data().values().all(second_is_tuples),
        _ => true,
    }
}

fn call(koto: &mut Koto, module: &KMap, name: &str, arg: KValue) -> std::result::Result<std::result::Result<KValue, String>, panics::PanicInfo> {
    let f = module.get(name).expect("module function");
    panics::guarded(|| koto.call_function(f, &[arg]).map_err(|e| e.to_string()))
}

fn display(koto: &mut Koto, v: &KValue) -> String {
    koto.value_to_string(v.clone()).unwrap_or_else(|_| "<display error>".into()).chars().take(300).collect()
}

// ---- Rust data through serde -----------------------------------------------------------------------------------------

#[derive(Serialize, Deserialize, PartialEq, Debug, Clone)]
enum Shape {
    Unit,
    Newtype(i32),
    Tuple(u8, String),
    Struct { a: bool, b: Option<f64> },
}

#[derive(Serialize, Deserialize, PartialEq, Debug, Clone)]
struct Inner {
    id: u64,
    name: String,
    tags: Vec<String>,
    shape: Shape,
}

#[derive(Serialize, Deserialize, PartialEq, Debug, Clone)]
struct Outer {
    flag: bool,
    i8_: i8,
    i16_: i16,
    i32_: i32,
    i64_: i64,
    u8_: u8,
    u16_: u16,
    u32_: u32,
    u64_: u64,
    f32_: f32,
    f64_: f64,
    ch: char,
    text: String,
    unit: (),
    opt: Option<i32>,
    opt_opt: Option<Option<i32>>,
    pair: (i32, String),
    list: Vec<Inner>,
    map: BTreeMap<String, Shape>,
    nested: Vec<Vec<u8>>,
    shapes: Vec<Shape>,
}

fn gen_shape(rng: &mut Rng) -> Shape {
    match rng.below(4) {
        0 => Shape::Unit,
        1 => Shape::Newtype(rng.next() as i32),
        2 => Shape::Tuple(rng.next() as u8, STRINGS[rng.below(STRINGS.len() as u64) as usize].to_string()),
        _ => Shape::Struct { a: rng.chance(50), b: if rng.chance(50) { Some((rng.below(2001) as f64 - 1000.0) / 8.0) } else { None } },
    }
}

fn gen_outer(rng: &mut Rng) -> Outer {
    let chars = ['a', 'é', '€', '😀', '\n', '"', '\\', '\0'];
    Outer {
        flag: rng.chance(50),
        i8_: rng.next() as i8,
        i16_: rng.next() as i16,
        i32_: rng.next() as i32,
        i64_: rng.next() as i64,
        u8_: rng.next() as u8,
        u16_: rng.next() as u16,
        u32_: rng.next() as u32,
        u64_: if rng.chance(70) { rng.next() >> 1 } else { rng.below(1000) },
        f32_: (rng.below(20001) as f32 - 10000.0) / 16.0,
        f64_: {
            let f = f64::from_bits(rng.next());
            if f.is_finite() { f } else { 0.5 }
        },
        ch: chars[rng.below(chars.len() as u64) as usize],
        text: STRINGS[rng.below(STRINGS.len() as u64) as usize].to_string(),
        unit: (),
        opt: if rng.chance(50) { Some(rng.next() as i32) } else { None },
        // (Some(None) is indistinguishable from None in any null-based self-describing format: not generated)
        opt_opt: match rng.below(2) {
            0 => None,
            _ => Some(Some(rng.next() as i32)),
        },
        pair: (rng.next() as i32, "p".into()),
        list: (0..rng.below(4)).map(|_| Inner {
            id: rng.next() >> 1,
            name: STRINGS[rng.below(STRINGS.len() as u64) as usize].to_string(),
            tags: (0..rng.below(3)).map(|_| KEYS[rng.below(KEYS.len() as u64) as usize].to_string()).collect(),
            shape: gen_shape(rng),
        }).collect(),
        map: (0..rng.below(4)).map(|_| (KEYS[rng.below(KEYS.len() as u64) as usize].to_string(), gen_shape(rng))).collect(),
        nested: (0..rng.below(3)).map(|_| (0..rng.below(4)).map(|_| rng.next() as u8).collect()).collect(),
        shapes: (0..rng.below(4)).map(|_| gen_shape(rng)).collect(),
    }
}

pub fn run(seed: u64, n_trees: u64, n_rust: u64, corruptions_per_doc: usize) -> Value {
    let mut koto = Koto::with_settings(KotoSettings { run_tests: false, ..Default::default() });
    let modules: Vec<(&str, KMap)> = vec![("json", koto_json::make_module()), ("yaml", koto_yaml::make_module()), ("toml", koto_toml::make_module())];
    let mut rng = Rng::new(seed);
    let mut faults: Vec<Value> = Vec::new();
    let mut fault_count = 0u64;
    let mut stats = serde_json::Map::new();
    let mut evaluations = 0u64;
    let mut samples: Vec<Value> = Vec::new();
    let mut corruptions = 0u64;
    let mut corrupt_errors = 0u64;
    let mut toml_null_refusals = 0u64;
    let mut add = |faults: &mut Vec<Value>, v: Value| {
        if faults.len() < 100 {
            faults.push(v);
        }
    };
    for t in 0..n_trees {
        for (name, module) in &modules {
            let toml = *name == "toml";
            // TOML: a map at the top, no null anywhere - except in every fourth tree, where nulls are allowed: TOML cannot
            // represent them, so either to_string refuses the value or (never) the round trip gives it back
            let toml_nulls = toml && t % 4 == 3;
            let value = if toml {
                let m = KMap::new();
                for _ in 0..rng.below(5) {
                    let k = KEYS[rng.below(KEYS.len() as u64) as usize];
                    m.insert(k, gen_value(&mut rng, 3, toml_nulls));
                }
                KValue::Map(m)
            } else {
                gen_value(&mut rng, 4, true)
            };
            evaluations += 1;
            let text = match call(&mut koto, module, "to_string", value.clone()) {
                Err(p) => {
                    fault_count += 1;
                    add(&mut faults, json!({"rule": "panic", "format": name, "detail": p.signature, "value": display(&mut koto, &value)}));
                    continue;
                }
                Ok(Err(_)) if toml && contains_null(&value) => {
                    toml_null_refusals += 1;
                    continue;
                }
                Ok(Err(e)) => {
                    fault_count += 1;
                    add(&mut faults, json!({"rule": "to_string-error", "format": name, "detail": e.chars().take(200).collect::<String>(), "value": display(&mut koto, &value)}));
                    continue;
                }
                Ok(Ok(KValue::Str(s))) => s.to_string(),
                Ok(Ok(other)) => {
                    fault_count += 1;
                    add(&mut faults, json!({"rule": "to_string-type", "format": name, "detail": other.type_as_string().to_string()}));
                    continue;
                }
            };
            let back = match call(&mut koto, module, "from_string", KValue::Str(text.as_str().into())) {
                Err(p) => {
                    fault_count += 1;
                    add(&mut faults, json!({"rule": "panic", "format": name, "detail": p.signature, "text": text.chars().take(300).collect::<String>()}));
                    continue;
                }
                Ok(Err(e)) => {
                    fault_count += 1;
                    add(&mut faults, json!({"rule": "from_string-error", "format": name, "detail": e.chars().take(200).collect::<String>(), "text": text.chars().take(400).collect::<String>(), "value": display(&mut koto, &value)}));
                    continue;
                }
                Ok(Ok(v)) => v,
            };
            let mut path = String::new();
            if !same(&value, &back, &mut path) {
                fault_count += 1;
                add(&mut faults, json!({"rule": "round-trip", "format": name, "detail": path, "value": display(&mut koto, &value), "back": display(&mut koto, &back), "text": text.chars().take(400).collect::<String>()}));
                continue;
            }
            if !second_is_tuples(&back) {
                fault_count += 1;
                add(&mut faults, json!({"rule": "normal-form", "format": name, "detail": "a sequence came back as a list", "back": display(&mut koto, &back)}));
            }
            // second round trip is the identity (text and value)
            if let Ok(Ok(KValue::Str(text2))) = call(&mut koto, module, "to_string", back.clone()) {
                if let Ok(Ok(back2)) = call(&mut koto, module, "from_string", KValue::Str(text2.clone())) {
                    let mut path2 = String::new();
                    if !same(&back, &back2, &mut path2) || text2.as_str() != text {
                        fault_count += 1;
                        add(&mut faults, json!({"rule": "second-round-trip", "format": name, "detail": path2, "text": text.chars().take(300).collect::<String>(), "text2": text2.chars().take(300).collect::<String>()}));
                    }
                }
            }
            if samples.len() < 3 && t == 7 {
                samples.push(json!({"format": name, "value": display(&mut koto, &value), "text": text.chars().take(200).collect::<String>()}));
            }
            // corruption: truncation at char boundaries and single-character substitutions must never panic
            let boundaries: Vec<usize> = text.char_indices().map(|(i, _)| i).collect();
            for _ in 0..corruptions_per_doc.min(boundaries.len()) {
                let at = boundaries[rng.below(boundaries.len() as u64) as usize];
                let corrupted = if rng.chance(50) {
                    text[..at].to_string()
                } else {
                    let subs = ["{", "}", "[", "]", ":", ",", "\"", "'", "\\", "-", "#", "\n", "=", ".", "e", "0", "\u{0}", "é"];
                    let c = text[at..].chars().next().unwrap();
                    format!("{}{}{}", &text[..at], subs[rng.below(subs.len() as u64) as usize], &text[at + c.len_utf8()..])
                };
                corruptions += 1;
                match call(&mut koto, module, "from_string", KValue::Str(corrupted.as_str().into())) {
                    Err(p) => {
                        if !panics::is_excluded(&p) {
                            fault_count += 1;
                            add(&mut faults, json!({"rule": "panic", "format": name, "detail": p.signature, "text": corrupted.chars().take(300).collect::<String>()}));
                        }
                    }
                    Ok(Err(_)) => corrupt_errors += 1,
                    Ok(Ok(_)) => {}
                }
            }
        }
    }
    // integers that no Koto number can hold exactly must be rejected, never clamped: every integer literal in
    // i64::MAX + 1 ..= u64::MAX, at the top level and nested, with seeded neighbours of the two limits
    let mut out_of_range = 0u64;
    let mut big: Vec<u128> = vec![9223372036854775808, 9223372036854775809, 12345678901234567890, 18446744073709551614, 18446744073709551615];
    for _ in 0..20 {
        big.push(9223372036854775808u128 + (rng.next() as u128 % 9223372036854775807));
    }
    for n in &big {
        for (name, module) in &modules {
            let docs: Vec<String> = match *name {
                "json" => vec![format!("{n}"), format!("[1, {n}]"), format!("{{\"a\": {{\"b\": [{n}]}}}}")],
                "yaml" => vec![format!("{n}"), format!("- 1\n- {n}\n"), format!("a:\n  b: {n}\n"), format!("0x{n:X}")],
                _ => vec![format!("a = {n}\n"), format!("a = [1, {n}]\n")],
            };
            for doc in docs {
                out_of_range += 1;
                evaluations += 1;
                match call(&mut koto, module, "from_string", KValue::Str(doc.as_str().into())) {
                    Err(p) => {
                        if !panics::is_excluded(&p) {
                            fault_count += 1;
                            add(&mut faults, json!({"rule": "panic", "format": name, "detail": p.signature, "text": doc}));
                        }
                    }
                    Ok(Err(_)) => {}
                    Ok(Ok(v)) => {
                        // accepted: only fine when the value that came back is that very number (a float that is exact)
                        let shown = display(&mut koto, &v);
                        if !shown.contains(&n.to_string()) {
                            fault_count += 1;
                            add(&mut faults, json!({"rule": "out-of-range-accepted", "format": name, "text": doc, "value": shown.chars().take(200).collect::<String>()}));
                        }
                    }
                }
            }
        }
    }
    stats.insert("out_of_range_documents".into(), json!(out_of_range));
    stats.insert("toml_values_with_null_refused".into(), json!(toml_null_refusals));
    // "nested arbitrarily": a number wrapped D times in one-element lists (TOML: one-entry maps) comes back unchanged
    let mut deep = 0u64;
    for depth in [8usize, 32, 64, 100, 120, 126, 127, 128, 129, 160, 200, 300] {
        for (name, module) in &modules {
            let toml = *name == "toml";
            let mut value = KValue::Number(7.into());
            if toml {
                let m = KMap::new();
                m.insert("k", value);
                value = KValue::Map(m);
            }
            for _ in 0..depth {
                value = if toml {
                    let m = KMap::new();
                    m.insert("k", value);
                    KValue::Map(m)
                } else {
                    KValue::Tuple(vec![value].into())
                };
            }
            deep += 1;
            evaluations += 1;
            let text = match call(&mut koto, module, "to_string", value.clone()) {
                Err(p) => {
                    if !panics::is_excluded(&p) {
                        fault_count += 1;
                        add(&mut faults, json!({"rule": "panic", "format": name, "detail": p.signature, "value": format!("nesting depth {depth}")}));
                    }
                    continue;
                }
                Ok(Err(e)) => {
                    fault_count += 1;
                    add(&mut faults, json!({"rule": "deep-nesting", "format": name, "depth": depth, "detail": format!("to_string: {}", e.lines().next().unwrap_or(""))}));
                    continue;
                }
                Ok(Ok(KValue::Str(s))) => s.as_str().to_string(),
                Ok(Ok(_)) => continue,
            };
            match call(&mut koto, module, "from_string", KValue::Str(text.as_str().into())) {
                Err(p) => {
                    if !panics::is_excluded(&p) {
                        fault_count += 1;
                        add(&mut faults, json!({"rule": "panic", "format": name, "detail": p.signature, "text": format!("nesting depth {depth}")}));
                    }
                }
                Ok(Err(e)) => {
                    fault_count += 1;
                    add(&mut faults, json!({"rule": "deep-nesting", "format": name, "depth": depth, "detail": format!("from_string: {}", e.lines().next().unwrap_or(""))}));
                }
                Ok(Ok(back)) => {
                    let mut path = String::new();
                    if !same(&value, &back, &mut path) {
                        fault_count += 1;
                        add(&mut faults, json!({"rule": "deep-nesting", "format": name, "depth": depth, "detail": format!("round trip differs at {}", path.chars().take(60).collect::<String>())}));
                    }
                }
            }
        }
    }
    stats.insert("deep_nesting_documents".into(), json!(deep));
    // Rust data -> Koto value -> Rust data
    let mut rust_values = 0u64;
    for _ in 0..n_rust {
        let x = gen_outer(&mut rng);
        rust_values += 1;
        evaluations += 1;
        let r = panics::guarded(|| koto_serde::to_koto_value(&x).map_err(|e| e.to_string()).and_then(|v| koto_serde::from_koto_value::<Outer>(v).map_err(|e| e.to_string())));
        match r {
            Err(p) => {
                fault_count += 1;
                add(&mut faults, json!({"rule": "panic", "format": "serde", "detail": p.signature, "value": format!("{x:?}").chars().take(300).collect::<String>()}));
            }
            Ok(Err(e)) => {
                fault_count += 1;
                add(&mut faults, json!({"rule": "serde-error", "format": "serde", "detail": e.chars().take(200).collect::<String>(), "value": format!("{x:?}").chars().take(400).collect::<String>()}));
            }
            Ok(Ok(y)) => {
                let same_bits = x.f64_.to_bits() == y.f64_.to_bits() && x.f32_.to_bits() == y.f32_.to_bits();
                if x != y || !same_bits {
                    fault_count += 1;
                    add(&mut faults, json!({"rule": "serde-round-trip", "format": "serde", "value": format!("{x:?}").chars().take(500).collect::<String>(), "back": format!("{y:?}").chars().take(500).collect::<String>()}));
                }
            }
        }
        // out-of-range input yields an error, never a panic
        if let Ok(v) = koto_serde::to_koto_value(&x) {
            if let KValue::Map(m) = &v {
                m.insert("u8_", KValue::Number(100000.into()));
                m.insert("i8_", KValue::Number((-1e30f64).into()));
            }
            let r = panics::guarded(|| koto_serde::from_koto_value::<Outer>(v).is_ok());
            if let Err(p) = r {
                fault_count += 1;
                add(&mut faults, json!({"rule": "panic", "format": "serde", "detail": p.signature, "value": "out-of-range field"}));
            }
        }
    }
    stats.insert("trees".into(), json!(n_trees * 3));
    stats.insert("rust_values".into(), json!(rust_values));
    stats.insert("corruptions".into(), json!(corruptions));
    stats.insert("corrupted_documents_rejected".into(), json!(corrupt_errors));
    json!({"evaluations": evaluations + corruptions, "fault_count": fault_count, "faults": faults, "samples": samples, "stats": Value::Object(stats)})
}
