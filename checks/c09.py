"""C09 lexing is lossless and positions are exact.
Oracle: independent recomputation of byte coverage, char boundaries, line numbers, column restart
and logical-line indentation from the source text (harness/src/lexcheck.rs). Exhaustive over all
strings up to a length bound over a mode-hitting alphabet, plus corpus and random long inputs."""
import json, os, subprocess, time
from .common import *
from kv.pool import fan_out
from kv.worker import binary

PID = "C09"

def _exhaustive_shard(shard, n, alphabet, max_len):
    env = dict(os.environ); env["RUST_BACKTRACE"] = "0"
    p = subprocess.run([binary(), "lex", alphabet, str(max_len), str(shard), str(n)], stdout=subprocess.PIPE, stderr=subprocess.PIPE, env=env, timeout=3000)
    if p.returncode != 0:
        tail = p.stderr.decode("utf-8", "replace")[-500:]
        return {"died": True, "detail": "exit %s: %s" % (p.returncode, tail)}
    return json.loads(p.stdout.decode())

def _long_shard(shard, n, tier, seed):
    w = Worker()
    rng = rng_for(seed, "c09-long", shard)
    progs = corpus_mod.load()
    rep = {"violations": [], "evaluations": 0, "kinds": set(), "tokens": 0, "samples": [], "error_streams": 0, "distinct": set()}
    alphabet = ["'", '"', "{", "}", "\\", "#", "-", "r", "0", "1", ".", "e", "_", "a", "x", " ", "\t", "\r", "\n", ":", "é", "漢", "😀",
                "#-", "-#", "r#'", "'#", "\r\n", "\n  ", "́", "é", "${", "0x", "1e", "..", "...", "->", "\\\n", "\\u{", "\\x"]
    def check(src, origin):
        rep["evaluations"] += 1
        try:
            r = w.call({"op": "lexcheck", "src": src}, timeout=20)
        except WorkerDied as e:
            rep["violations"].append({"key": "lex-death:" + sha(src), "summary": "worker died while lexing: " + e.detail[-200:], "case": {"src": src, "origin": origin}})
            return
        except WorkerHang:
            rep["violations"].append({"key": "lex-hang:" + sha(src), "summary": "lexer did not terminate within 20 s", "case": {"src": src, "origin": origin}})
            return
        if "panic" in r:
            rep["violations"].append({"key": "panic:" + r["panic"]["signature"], "summary": "lexer panicked: " + r["panic"]["message"][:100], "case": {"src": src, "origin": origin, "panic": r["panic"]}})
            return
        rep["tokens"] += r.get("tokens", 0)
        rep["kinds"].update(r.get("kinds", []))
        rep["error_streams"] += 1 if r.get("error_stream") else 0
        if r.get("tokens", 0) >= 3:
            rep["distinct"].add(sha(src))
        for f in r.get("faults", []):
            rep["violations"].append({"key": "lex:%s:%s" % (f["rule"], sha(src)), "summary": "%s: %s" % (f["rule"], f["detail"]), "case": {"src": src, "origin": origin, "fault": f}})
    # corpus files
    for i, p in enumerate(progs):
        if i % n == shard:
            check(p["src"], p["id"])
            # CRLF variant and a truncation at a random char
            check(p["src"].replace("\n", "\r\n"), p["id"] + "/crlf")
            if p["src"]:
                check(p["src"][:rng.randrange(len(p["src"]))], p["id"] + "/cut")
    # format-spec grid: every fill (incl. line breaks, wide and combining characters) x alignment x rest of the spec, inside an
    # interpolated string with tokens before and after it (the options token is the only one whose text may hold a line break
    # besides strings and comments, and alignment characters are outside the exhaustive alphabets)
    fills = ["", "\n", "\r\n", "\r", "\t", " ", "é", "漢", "😀", "e\u0301", "👍🏽", "x", "0", "<", ">", "}", "{", ":", "'", "\\", "\n\n"]
    rests = ["", "3", "03", ".2", "5.1", "\n", "3\n", "e", "?", "#x", "\n<"]
    cell = 0
    for fill in fills:
        for align in ("<", "^", ">", ""):
            for rest in rests:
                for q in ("'", '"'):
                    for prefix, suffix in (("", ""), ("x = 1\n", "\ny"), ("  ", " 'z'"), ("f ", "\n  y\n"), ("", "{x:" + fill + align + "}" + q + "\nz")):
                        cell += 1
                        if cell % n == shard:
                            body = "{x:" + fill + align + rest + "}"
                            check(prefix + q + body + q + suffix if not suffix.startswith("{") else prefix + q + body + suffix, "format-spec")
    # random long inputs assembled from corpus tokens and alphabet symbols
    bag = []
    for p in rng.sample(progs, min(40, len(progs))):
        try:
            toks = w.call({"op": "tokens", "src": p["src"]}, timeout=10).get("tokens") or []
        except (WorkerDied, WorkerHang):
            continue
        b = p["src"].encode()
        bag += [b[s:e].decode("utf-8", "replace") for s, e, _ in toks]
    count = (200000 if tier == "thorough" else 12000) // n
    for k in range(count):
        parts = []
        total = 0
        target = rng.randint(1, 400)
        while total < target:
            piece = rng.choice(bag) if (bag and rng.random() < 0.6) else rng.choice(alphabet)
            parts.append(piece)
            total += len(piece)
        src = "".join(parts)
        check(src, "random")
        if len(rep["samples"]) < 1 and k == 3:
            rep["samples"].append(src[:200])
    w.close()
    rep["kinds"] = sorted(rep["kinds"])
    rep["distinct"] = len(rep["distinct"])
    return rep

def run(tier, seed):
    chk = Check(PID, tier, seed)
    if not chk.build():
        return chk.finish({"evaluations": 0, "distinct_nontrivial": 0, "rule": "", "samples": []})
    quick = tier == "quick"
    main_len = 6 if quick else 7
    cov = {"evaluations": 0, "distinct_nontrivial": 0, "samples": [], "exhaustive": True, "token_kinds_seen": set(), "parts": {}}
    parts = [("main", main_len)] + ([] if quick else [("sub", 8)])
    for alphabet, max_len in parts:
        shards = fan_out(_exhaustive_shard, alphabet=alphabet, max_len=max_len)
        ev = 0
        for s in shards:
            if "harness_error" in s:
                chk.harness_errors.append(s["harness_error"]); continue
            if s.get("died"):
                chk.violation("lex-exhaustive-death:" + alphabet, "lexer enumeration process died: " + s["detail"], {"alphabet": alphabet, "max_len": max_len})
                continue
            if "panic" in s:
                chk.violation("panic:" + s["panic"]["signature"], "lexer panicked during exhaustive enumeration: " + s["panic"]["message"][:100], {"alphabet": alphabet, "max_len": max_len, "panic": s["panic"]})
                continue
            ev += s["evaluations"]
            cov["token_kinds_seen"].update(s["token_kinds"])
            for f in s["faults"]:
                chk.violation("lex:%s:%s" % (f["rule"], sha(f["input"])), "%s on %r: %s" % (f["rule"], f["input"], f["detail"]), {"src": f["input"], "fault": f})
            cov["samples"] += s["samples"][:1] if len(cov["samples"]) < 4 else []
        cov["parts"]["all strings of length <= %d over the %s alphabet" % (max_len, alphabet)] = ev
        cov["evaluations"] += ev
        cov["distinct_nontrivial"] += ev   # every enumerated string is distinct by construction
    shards = fan_out(_long_shard, tier=tier, seed=seed)
    lev = 0
    for s in shards:
        chk.merge_shard(s)
        if "harness_error" in s:
            continue
        lev += s["evaluations"]
        cov["token_kinds_seen"].update(s["kinds"])
        cov["distinct_nontrivial"] += s["distinct"]
        cov["samples"] += s["samples"][:1] if len(cov["samples"]) < 6 else []
    cov["parts"]["corpus files (+CRLF, +random cut) and random inputs of length <= 400"] = lev
    cov["evaluations"] += lev
    cov["token_kinds_seen"] = sorted(cov["token_kinds_seen"])
    cov["rule"] = ("exhaustive: every string of length <= %d over the 23-symbol alphabet%s (each enumerated string is distinct; the "
                   "enumeration is complete, hence exhaustive=true for that part); plus corpus files, their CRLF and cut variants, a grid of 9 240 interpolated strings with a format spec (21 fills incl. LF / CRLF / wide / combining x 4 alignments x 11 spec tails x 2 quotes x 5 contexts) and "
                   "seeded random inputs (distinct = distinct inputs with >= 3 tokens). peek(n) stability is checked on a 1/4099 sample "
                   "and on every long input." % (main_len, "" if quick else " and length <= 8 over the 14-symbol sub-alphabet"))
    return chk.finish(cov, assumptions=["indentation is read as the leading whitespace of the logical line (as delimited by NewLine tokens)",
                                         "the error token itself is exempt from the position rules",
                                         "peek(n) is exercised with n <= queue length + 1 only"])
