//! C09: lexer oracle — lossless token stream with exact positions

use koto_lexer::{Lexer, Token};
use serde_json::{Value, json};

pub const ALPHABET_MAIN: &[&str] = &[
    "'", "\"", "{", "}", "\\", "#", "-", "r", "0", "1", ".", "e", "_", "a", "x", " ", "\t", "\r",
    "\n", ":", "é", "漢", "😀",
];
pub const ALPHABET_SUB: &[&str] = &[
    "'", "\"", "{", "}", "\\", "#", "-", "r", "0", ".", ":", " ", "\n", "é",
];

#[derive(Default)]
pub struct LexStats {
    pub tokens: u64,
    pub error_streams: u64,
    pub token_kinds: std::collections::BTreeSet<String>,
}

/// Returns the list of (rule, detail) faults for the input
pub fn lex_check(s: &str, stats: Option<&mut LexStats>) -> Vec<(&'static str, String)> {
    let mut faults = Vec::new();
    let bytes = s.as_bytes();
    let len = s.len();
    let mut expected_start = 0usize;
    let mut count = 0usize;
    let mut saw_error = false;
    // indentation of the current logical line
    let indent_at = |pos: usize| -> usize {
        bytes[pos.min(len)..]
            .iter()
            .take_while(|b| **b == b' ' || **b == b'\t')
            .count()
    };
    let mut line_indent = indent_at(0);
    let mut newlines_before = 0u32; // number of '\n' in s[..expected_start]
    let mut local_kinds: Vec<Token> = Vec::new();

    for t in Lexer::new(s) {
        count += 1;
        if count > len + 2 {
            faults.push(("non-termination", format!("more than {} tokens", len + 2)));
            break;
        }
        let (start, end) = (t.source_bytes.start, t.source_bytes.end);
        if t.token == Token::Error {
            // the property speaks about the tokens before the first error token
            saw_error = true;
            break;
        }
        if start != expected_start {
            faults.push((
                "contiguity",
                format!("token {count} ({:?}) starts at {start}, expected {expected_start}", t.token),
            ));
            break;
        }
        if end < start || end > len {
            faults.push(("range", format!("token {count} ({:?}) has bytes {start}..{end} (len {len})", t.token)));
            break;
        }
        if !s.is_char_boundary(start) || !s.is_char_boundary(end) {
            faults.push(("char-boundary", format!("token {count} ({:?}) has bytes {start}..{end}", t.token)));
            break;
        }
        let newlines_inside = bytes[start..end].iter().filter(|b| **b == b'\n').count() as u32;
        let start_line = newlines_before;
        let end_line = newlines_before + newlines_inside;
        if t.span.start.line != start_line {
            faults.push((
                "start-line",
                format!("token {count} ({:?}) at byte {start} reports start line {}, expected {start_line}", t.token, t.span.start.line),
            ));
        }
        if t.span.end.line != end_line {
            faults.push((
                "end-line",
                format!("token {count} ({:?}) ending at byte {end} reports end line {}, expected {end_line}", t.token, t.span.end.line),
            ));
        }
        // columns restart at zero after each line break
        if start > 0 && bytes[start - 1] == b'\n' && t.span.start.column != 0 {
            faults.push((
                "column-restart",
                format!("token {count} ({:?}) starts right after a line break with column {}", t.token, t.span.start.column),
            ));
        }
        if start == 0 && t.span.start.column != 0 {
            faults.push(("column-restart", format!("first token starts at column {}", t.span.start.column)));
        }
        if end > start && bytes[end - 1] == b'\n' && t.span.end.column != 0 {
            faults.push((
                "column-restart",
                format!("token {count} ({:?}) ends right after a line break with column {}", t.token, t.span.end.column),
            ));
        }
        // indentation of the token's (logical) line
        if t.indent != line_indent {
            faults.push((
                "indent",
                format!("token {count} ({:?}) at byte {start} reports indent {}, expected {line_indent}", t.token, t.indent),
            ));
        }
        if t.token == Token::NewLine {
            line_indent = indent_at(end);
        }
        newlines_before = end_line;
        expected_start = end;
        if stats.is_some() {
            local_kinds.push(t.token);
        }
        if !faults.is_empty() {
            break;
        }
    }
    if !saw_error && faults.is_empty() && expected_start != len {
        faults.push(("coverage", format!("token stream ended at byte {expected_start} of {len} without an error token")));
    }
    if let Some(st) = stats {
        st.tokens += count as u64;
        if saw_error {
            st.error_streams += 1;
        }
        for k in local_kinds {
            let name = format!("{k:?}");
            let name = name.split('(').next().unwrap_or("").to_string();
            if !st.token_kinds.contains(&name) {
                st.token_kinds.insert(name);
            }
        }
    }
    faults
}

/// peek(n) must not change the stream (compared up to the first error token)
pub fn peek_check(s: &str) -> Vec<(&'static str, String)> {
    let mut plain: Vec<koto_lexer::LexedToken> = Vec::new();
    for t in Lexer::new(s).take(s.len() + 3) {
        let is_error = t.token == Token::Error;
        plain.push(t);
        if is_error {
            break;
        }
    }
    let ends_with_error = plain.last().map_or(false, |t| t.token == Token::Error);
    let mut lexer = Lexer::new(s);
    let mut consumed = 0usize;
    let mut k = 0usize;
    let mut queued = 0usize; // tokens currently held in the lexer's look-ahead queue
    while consumed < plain.len() {
        // peek(n) with n <= queue length + 1 (the documented use), varying with position
        for n in 0..=(k % 3) {
            if n > queued + 1 {
                break;
            }
            let peeked = lexer.peek(n).cloned();
            queued = queued.max(n + 1);
            match (peeked, plain.get(consumed + n)) {
                (Some(p), Some(expected)) => {
                    if *expected != p {
                        return vec![("peek", format!("peek({n}) at position {consumed} differs from the plain stream"))];
                    }
                }
                (None, Some(_)) => {
                    return vec![("peek", format!("peek({n}) at position {consumed} returned nothing although the stream continues"))];
                }
                (Some(_), None) => {
                    if !ends_with_error {
                        return vec![("peek", format!("peek({n}) at position {consumed} returned a token beyond the end of the plain stream"))];
                    }
                }
                (None, None) => {
                    queued = queued.min(plain.len() - consumed);
                }
            }
        }
        match lexer.next() {
            Some(t) => {
                if t != plain[consumed] {
                    return vec![("peek", format!("token {consumed} of the stream with interleaved peeks differs from the plain stream"))];
                }
                consumed += 1;
            }
            None => {
                return vec![("peek", format!("stream with interleaved peeks ended after {consumed} tokens, plain stream has {}", plain.len()))];
            }
        }
        queued = queued.saturating_sub(1);
        k += 1;
    }
    if !ends_with_error && lexer.next().is_some() {
        return vec![("peek", "stream with interleaved peeks is longer than the plain stream".into())];
    }
    // look-ahead beyond what is queued: peek(n) for any n, at every position ("peek_n(1) returns the token that will appear
    // after that, and so forth")
    let mut lexer = Lexer::new(s);
    for consumed in 0..plain.len() {
        let n = (consumed * 7 + 3) % 6;
        if let Some(expected) = plain.get(consumed + n) {
            match lexer.peek(n) {
                Some(p) if p == expected => {}
                Some(_) => return vec![("peek-far", format!("peek({n}) at position {consumed} differs from the plain stream"))],
                None => return vec![("peek-far", format!("peek({n}) at position {consumed} returned nothing although the stream continues"))],
            }
        }
        match lexer.next() {
            Some(t) if t == plain[consumed] => {}
            _ => return vec![("peek-far", format!("token {consumed} of the stream with far peeks differs from the plain stream"))],
        }
    }
    vec![]
}

/// Exhaustive enumeration of all strings up to max_len over the alphabet; shard by the first two
/// symbols
pub fn exhaustive(alphabet: &[&str], max_len: usize, shard: usize, n_shards: usize, max_faults: usize) -> Value {
    let k = alphabet.len();
    let mut stats = LexStats::default();
    let mut evaluations: u64 = 0;
    let mut faults_out: Vec<Value> = Vec::new();
    let mut fault_count: u64 = 0;
    let mut s = String::new();
    let mut idx: Vec<usize> = Vec::new();
    let mut samples: Vec<String> = Vec::new();
    // the empty string belongs to shard 0
    if shard == 0 {
        evaluations += 1;
        for (rule, detail) in lex_check("", Some(&mut stats)) {
            fault_count += 1;
            faults_out.push(json!({"rule": rule, "detail": detail, "input": ""}));
        }
    }
    for length in 1..=max_len {
        idx.clear();
        idx.resize(length, 0);
        'outer: loop {
            let prefix = if length >= 2 { idx[0] * k + idx[1] } else { idx[0] };
            if prefix % n_shards == shard {
                s.clear();
                for i in &idx {
                    s.push_str(alphabet[*i]);
                }
                evaluations += 1;
                let sample_stats = if evaluations % 64 == 0 { Some(&mut stats) } else { None };
                let f = lex_check(&s, sample_stats);
                if !f.is_empty() {
                    fault_count += f.len() as u64;
                    if faults_out.len() < max_faults {
                        for (rule, detail) in f {
                            faults_out.push(json!({"rule": rule, "detail": detail, "input": s}));
                        }
                    }
                }
                if evaluations % 4099 == 0 {
                    for (rule, detail) in peek_check(&s) {
                        fault_count += 1;
                        faults_out.push(json!({"rule": rule, "detail": detail, "input": s}));
                    }
                    if samples.len() < 3 {
                        samples.push(s.clone());
                    }
                }
            }
            // odometer
            let mut p = length;
            loop {
                if p == 0 {
                    break 'outer;
                }
                p -= 1;
                idx[p] += 1;
                if idx[p] < k {
                    break;
                }
                idx[p] = 0;
            }
        }
    }
    json!({
        "evaluations": evaluations,
        "fault_count": fault_count,
        "faults": faults_out,
        "tokens_sampled": stats.tokens,
        "error_streams_sampled": stats.error_streams,
        "token_kinds": stats.token_kinds.iter().collect::<Vec<_>>(),
        "samples": samples,
    })
}

pub fn check_one(src: &str) -> Value {
    let mut stats = LexStats::default();
    let r = crate::panics::guarded(|| {
        let mut f = lex_check(src, Some(&mut stats));
        f.extend(peek_check(src));
        f
    });
    match r {
        Ok(f) => json!({
            "faults": f.iter().map(|(r, d)| json!({"rule": r, "detail": d})).collect::<Vec<_>>(),
            "tokens": stats.tokens,
            "kinds": stats.token_kinds.iter().collect::<Vec<_>>(),
            "error_stream": stats.error_streams > 0,
        }),
        Err(p) => json!({"panic": crate::panics::to_json(&p)}),
    }
}
