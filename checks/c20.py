"""C20 data interchange round-trips. Monitors in the worker (harness/src/serdecheck.rs) over real
calls of the json / yaml / toml modules' to_string / from_string and of koto_serde's
to_koto_value / from_koto_value: value == from_string(to_string(value)) up to the documented normal
form (host-side structural comparison, numbers by kind and bits), second round trip identical in
text and value, Rust data unchanged through a Koto value, and no panic on truncated / substituted
documents or out-of-range fields."""
import json, os, subprocess
from .common import *
from kv.pool import fan_out
from kv.worker import binary

PID = "C20"

def _shard(shard, n, tier, seed):
    env = dict(os.environ); env["RUST_BACKTRACE"] = "0"
    trees, rust, corr = (1200, 800, 6) if tier == "quick" else (250000, 150000, 12)
    p = subprocess.run([binary(), "serde", str(seed * 1000 + shard + 1), str(trees), str(rust), str(corr)], stdout=subprocess.PIPE, stderr=subprocess.PIPE, env=env, timeout=6000)
    if p.returncode != 0:
        return {"died": True, "detail": "exit %s: %s" % (p.returncode, p.stderr.decode("utf-8", "replace")[-400:])}
    return json.loads(p.stdout.decode())

def run(tier, seed):
    chk = Check(PID, tier, seed)
    if not chk.build():
        return chk.finish({"evaluations": 0, "distinct_nontrivial": 0, "rule": "", "samples": []})
    cov = {"evaluations": 0, "distinct_nontrivial": 0, "samples": [], "stats": {}}
    for s in fan_out(_shard, tier=tier, seed=seed):
        if "harness_error" in s:
            chk.harness_errors.append(s["harness_error"]); continue
        if s.get("died"):
            chk.violation("serde-death", "the serde check process died: " + s["detail"], {"detail": s["detail"]}); continue
        if "panic" in s:
            chk.violation("panic:" + s["panic"]["signature"], "panic in the serde check: " + s["panic"]["message"][:100], {"panic": s["panic"]}); continue
        cov["evaluations"] += s["evaluations"]
        for k, v in s["stats"].items():
            cov["stats"][k] = cov["stats"].get(k, 0) + v
        for f in s["faults"]:
            key = "panic:" + f["detail"] if f["rule"] == "panic" else "serde:deep-nesting:%s:%s" % (f.get("format"), f.get("depth")) if f["rule"] == "deep-nesting" else "serde:%s:%s:%s" % (f["rule"], f.get("format"), sha(json.dumps(f, sort_keys=True)))
            chk.violation(key, "%s (%s): %s %s" % (f["rule"], f.get("format"), f.get("detail", "")[:120], (f.get("value") or f.get("text") or "")[:160]), f)
        cov["samples"] += s["samples"][:1] if len(cov["samples"]) < 4 else []
    cov["distinct_nontrivial"] = cov["stats"].get("trees", 0) + cov["stats"].get("rust_values", 0) + cov["stats"].get("corruptions", 0)
    cov["rule"] = ("seeded value trees (depth <= 4, width <= 5: null, bools, ints over the whole i64 range incl. 2^53 +- 2, finite floats incl. -0.0, subnormals, 1e308 and random "
                   "bit patterns, 40 strings incl. quotes, backslashes, control characters, multi-byte text, empty, number- / keyword-like YAML traps, lists, tuples, maps with "
                   "12 awkward keys) through json / yaml / toml (TOML: map at the top, no null): to_string, from_string, structural comparison (sequences as sequences, maps "
                   "order-insensitive, numbers by kind and bits), sequences come back as tuples, second round trip identical in text and value; every document is also "
                   "truncated / substituted at random character positions (no panic); Rust values of a struct family (all integer widths, f32 / f64 by bits, char, String, "
                   "(), Option, nested Option, tuple, Vec of structs, BTreeMap, unit / newtype / tuple / struct enum variants) through to_koto_value and from_koto_value, "
                   "plus out-of-range fields (error, no panic). distinct = value trees + Rust values + corrupted documents (seeded, practically all distinct).")
    return chk.finish(cov, assumptions=["Option<Option<T>>::Some(None) is not generated (indistinguishable from None in a null-based self-describing format)",
                                         "maps are compared order-insensitively (TOML writes scalar entries before tables; the language's own == ignores order)"])
