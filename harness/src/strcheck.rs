//! C15: strings stay valid text; indexing, splitting and formatting are exact
//!
//! Closed model: Rust `str` + `unicode-segmentation` (byte semantics for indexing, grapheme semantics for chars).
//! Every string up to a length bound over a width-mixing alphabet is run through one batch script per representation
//! (fresh value, sub-slice, slice of a slice); the list of results handed back to the host is compared element by
//! element with the oracle, and every returned string is validated as UTF-8.

use crate::panics;
use koto::prelude::*;
use serde_json::{Value, json};
use std::collections::HashMap;
use unicode_segmentation::UnicodeSegmentation;

pub const ALPHABET: &[&str] = &["a", "é", "€", "😀", "\u{301}", " ", "\n", "\r\n", ","];
const ERR: &str = "\u{1}#E";

#[derive(Clone, Debug, PartialEq)]
pub enum V {
    Null,
    Bool(bool),
    Int(i64),
    Float(f64),
    Str(String),
    Range(i64, i64),
    Seq(Vec<V>),
    Err,
    Other(String),
}

fn to_v(value: &KValue, bad_utf8: &mut Vec<String>) -> V {
    match value {
        KValue::Null => V::Null,
        KValue::Bool(b) => V::Bool(*b),
        KValue::Number(n) => {
            if n.is_f64() {
                V::Float(f64::from(*n))
            } else {
                V::Int(i64::from(*n))
            }
        }
        KValue::Str(s) => {
            let bytes = s.as_str().as_bytes();
            match std::str::from_utf8(bytes) {
                Ok(text) => {
                    if text == ERR {
                        V::Err
                    } else {
                        V::Str(text.to_string())
                    }
                }
                Err(_) => {
                    bad_utf8.push(format!("{bytes:?}"));
                    V::Other("malformed".into())
                }
            }
        }
        KValue::Range(r) => match (r.start(), r.end()) {
            (Some(a), Some((b, inclusive))) => V::Range(a, if inclusive { b + 1 } else { b }),
            _ => V::Other("unbounded range".into()),
        },
        KValue::List(l) => V::Seq(l.data().iter().map(|v| to_v(v, bad_utf8)).collect()),
        KValue::Tuple(t) => V::Seq(t.iter().map(|v| to_v(v, bad_utf8)).collect()),
        other => V::Other(other.type_as_string().to_string()),
    }
}

fn lit(s: &str) -> String {
    // a Koto string literal (double quoted) for s
    let mut out = String::from("\"");
    for c in s.chars() {
        match c {
            '"' => out.push_str("\\\""),
            '\\' => out.push_str("\\\\"),
            '{' => out.push_str("\\{"),
            '\n' => out.push_str("\\n"),
            '\r' => out.push_str("\\r"),
            '\t' => out.push_str("\\t"),
            c if (c as u32) < 0x20 || c == '\u{301}' => out.push_str(&format!("\\u{{{:x}}}", c as u32)),
            c => out.push(c),
        }
    }
    out.push('"');
    out
}

fn slice(s: &str, start: i64, end: i64) -> V {
    let len = s.len() as i64;
    let a = start.clamp(0, len);
    let b = end.clamp(a, len);
    match s.get(a as usize..b as usize) {
        Some(x) => V::Str(x.to_string()),
        None => V::Err,
    }
}

fn strs<'a>(it: impl Iterator<Item = &'a str>) -> V {
    V::Seq(it.map(|x| V::Str(x.to_string())).collect())
}

/// The operations of the batch for a string of the given byte length: (koto expression, oracle)
#[allow(clippy::type_complexity)]
fn operations(byte_len: usize) -> Vec<(String, Box<dyn Fn(&str) -> V>)> {
    let mut ops: Vec<(String, Box<dyn Fn(&str) -> V>)> = Vec::new();
    macro_rules! op {
        ($code:expr, $f:expr) => {
            ops.push(($code, Box::new($f)));
        };
    }
    let n = byte_len as i64;
    op!("size s".to_string(), |s: &str| V::Int(s.len() as i64));
    op!("s.is_empty()".to_string(), |s: &str| V::Bool(s.is_empty()));
    for i in -1..=n + 1 {
        op!(format!("s[{i}]"), move |s: &str| {
            if i < 0 || i >= s.len() as i64 {
                V::Err
            } else {
                match s.get(i as usize..i as usize + 1) {
                    Some(x) => V::Str(x.to_string()),
                    None => V::Err,
                }
            }
        });
        op!(format!("s[{i}..]"), move |s: &str| slice(s, i, i64::MAX));
        op!(format!("s[..{i}]"), move |s: &str| slice(s, 0, i));
        op!(format!("s[..={i}]"), move |s: &str| slice(s, 0, i + 1));
        for j in -1..=n + 1 {
            op!(format!("s[{i}..{j}]"), move |s: &str| slice(s, i, j));
            op!(format!("s[{i}..={j}]"), move |s: &str| slice(s, i, j + 1));
        }
    }
    op!("s[..]".to_string(), |s: &str| V::Str(s.to_string()));
    op!("s.chars().to_tuple()".to_string(), |s: &str| strs(s.graphemes(true)));
    op!("s.chars().to_string()".to_string(), |s: &str| V::Str(s.to_string()));
    // consumption from the back end and from both ends
    op!("s.chars().reversed().to_tuple()".to_string(), |s: &str| strs(s.graphemes(true).rev()));
    op!("s.chars().reversed().skip(1).reversed().to_tuple()".to_string(), |s: &str| {
        let g: Vec<&str> = s.graphemes(true).collect();
        strs(g[..g.len().saturating_sub(1)].iter().copied())
    });
    op!("s.chars().skip(1).reversed().to_tuple()".to_string(), |s: &str| strs(s.graphemes(true).skip(1).collect::<Vec<_>>().into_iter().rev()));
    op!("s.char_indices().to_tuple()".to_string(), |s: &str| V::Seq(
        s.grapheme_indices(true).map(|(i, g)| V::Range(i as i64, (i + g.len()) as i64)).collect()
    ));
    op!("s.bytes().to_tuple()".to_string(), |s: &str| V::Seq(s.bytes().map(|b| V::Int(b as i64)).collect()));
    op!("string.from_bytes(s.bytes())".to_string(), |s: &str| V::Str(s.to_string()));
    op!("s.lines().to_tuple()".to_string(), |s: &str| strs(s.lines()));
    op!("r = null\nfor c in s\n  r = c\nr".to_string(), |s: &str| match s.graphemes(true).last() {
        Some(g) => V::Str(g.to_string()),
        None => V::Null,
    });
    op!("s.trim()".to_string(), |s: &str| V::Str(s.trim().to_string()));
    op!("s.trim_start()".to_string(), |s: &str| V::Str(s.trim_start().to_string()));
    op!("s.trim_end()".to_string(), |s: &str| V::Str(s.trim_end().to_string()));
    op!("s.to_uppercase()".to_string(), |s: &str| V::Str(s.to_uppercase()));
    op!("s.to_lowercase()".to_string(), |s: &str| V::Str(s.to_lowercase()));
    for k in 0..=3usize {
        op!(format!("s.repeat({k})"), move |s: &str| V::Str(s.repeat(k)));
    }
    op!("(s + s)[(size s)..]".to_string(), |s: &str| V::Str(s.to_string()));
    op!("'{s}'".to_string(), |s: &str| V::Str(s.to_string()));
    op!("'<{s}>'[1..(1 + size s)]".to_string(), |s: &str| V::Str(s.to_string()));
    op!("(s == s[..], s < s, s <= s)".to_string(), |_s: &str| V::Seq(vec![V::Bool(true), V::Bool(false), V::Bool(true)]));
    // patterns
    let mut patterns: Vec<String> = ALPHABET.iter().map(|x| x.to_string()).collect();
    patterns.extend(["aa", "a,", ",a", "é€", "\n\n", "\r", ", ", "e", "E", "A"].iter().map(|x| x.to_string()));
    for p in patterns {
        let pl = lit(&p);
        let p1 = p.clone();
        op!(format!("s.split({pl}).to_tuple()"), move |s: &str| strs(s.split(p1.as_str())));
        let p1 = p.clone();
        op!(format!("s.split({pl}).intersperse({pl}).to_string()"), move |s: &str| {
            let _ = &p1;
            V::Str(s.to_string())
        });
        let p1 = p.clone();
        op!(format!("s.contains({pl})"), move |s: &str| V::Bool(s.contains(p1.as_str())));
        let p1 = p.clone();
        op!(format!("s.starts_with({pl})"), move |s: &str| V::Bool(s.starts_with(p1.as_str())));
        let p1 = p.clone();
        op!(format!("s.ends_with({pl})"), move |s: &str| V::Bool(s.ends_with(p1.as_str())));
        let p1 = p.clone();
        op!(format!("s.strip_prefix({pl})"), move |s: &str| match s.strip_prefix(p1.as_str()) {
            Some(x) => V::Str(x.to_string()),
            None => V::Null,
        });
        let p1 = p.clone();
        op!(format!("s.strip_suffix({pl})"), move |s: &str| match s.strip_suffix(p1.as_str()) {
            Some(x) => V::Str(x.to_string()),
            None => V::Null,
        });
        let p1 = p.clone();
        op!(format!("s.replace({pl}, 'Z€')"), move |s: &str| V::Str(s.replace(p1.as_str(), "Z€")));
        let p1 = p.clone();
        op!(format!("s.trim({pl})"), move |s: &str| V::Str(s.trim_start_matches(p1.as_str()).trim_end_matches(p1.as_str()).to_string()));
        let p1 = p.clone();
        op!(format!("s.trim_start({pl})"), move |s: &str| V::Str(s.trim_start_matches(p1.as_str()).to_string()));
        let p1 = p.clone();
        op!(format!("s.trim_end({pl})"), move |s: &str| V::Str(s.trim_end_matches(p1.as_str()).to_string()));
    }
    // unpacking and matching by grapheme
    op!("a, b = s\n(a, b)".to_string(), |s: &str| {
        let mut g = s.graphemes(true);
        let f = |x: Option<&str>| x.map_or(V::Null, |x| V::Str(x.to_string()));
        let a = f(g.next());
        let b = f(g.next());
        V::Seq(vec![a, b])
    });
    ops
}

const FAR: usize = 70_000;

fn script_for(byte_len: usize, repr: usize, ops: &[(String, Box<dyn Fn(&str) -> V>)]) -> String {
    let mut src = String::from("t = |f|\n  try\n    f()\n  catch _\n    ERR\n");
    match repr {
        0 => src.push_str("s = s0\n"),
        1 => src.push_str(&format!("s = ('x' + s0 + 'y')[1..{}]\n", 1 + byte_len)),
        // a slice whose bounds lie beyond 64 KiB of its backing buffer (KString's wide slice variant)
        3 => src.push_str(&format!("s = (PAD + s0 + 'é')[{}..{}]\n", FAR, FAR + byte_len)),
        _ => src.push_str(&format!("s = ('x€' + s0 + 'é')[1..{}][3..{}]\n", 4 + byte_len, 3 + byte_len)),
    }
    src.push_str("r = []\n");
    for (k, (code, _)) in ops.iter().enumerate() {
        if code.contains('\n') {
            src.push_str(&format!("f{k} = ||\n"));
            for l in code.lines() {
                src.push_str(&format!("  {l}\n"));
            }
            src.push_str(&format!("r.push t(f{k})\n"));
        } else {
            src.push_str(&format!("r.push t(|| ({code}))\n"));
        }
    }
    src.push_str("r\n");
    src
}

pub fn exhaustive(max_symbols: usize, shard: usize, n_shards: usize) -> Value {
    let mut koto = Koto::with_settings(KotoSettings {
        run_tests: false,
        ..Default::default()
    });
    koto.prelude().insert("ERR", KValue::Str(ERR.into()));
    koto.prelude().insert("PAD", KValue::Str("p".repeat(FAR).as_str().into()));
    let mut chunks: HashMap<(usize, usize), (koto::Ptr<Chunk>, usize)> = HashMap::new();
    let mut op_cache: HashMap<usize, Vec<(String, Box<dyn Fn(&str) -> V>)>> = HashMap::new();
    let mut evaluations: u64 = 0;
    let mut strings: u64 = 0;
    let mut errors_expected: u64 = 0;
    let mut faults: Vec<Value> = Vec::new();
    let mut fault_count: u64 = 0;
    let mut samples: Vec<Value> = Vec::new();
    let k = ALPHABET.len();
    let mut idx: Vec<usize> = Vec::new();
    for length in 0..=max_symbols {
        idx.clear();
        idx.resize(length, 0);
        'outer: loop {
            let prefix = match length {
                0 => 0,
                1 => idx[0],
                _ => idx[0] * k + idx[1],
            };
            if prefix % n_shards == shard {
                let s: String = idx.iter().map(|i| ALPHABET[*i]).collect();
                strings += 1;
                let byte_len = s.len();
                if !op_cache.contains_key(&byte_len) {
                    op_cache.insert(byte_len, operations(byte_len));
                }
                let ops = &op_cache[&byte_len];
                for repr in 0..4usize {
                    if !chunks.contains_key(&(byte_len, repr)) {
                        let src = script_for(byte_len, repr, ops);
                        match koto.compile(src.as_str()) {
                            Ok(c) => {
                                chunks.insert((byte_len, repr), (c, ops.len()));
                            }
                            Err(e) => {
                                fault_count += 1;
                                faults.push(json!({"rule": "batch-compile", "detail": e.to_string(), "input": s, "repr": repr}));
                                continue;
                            }
                        }
                    }
                    let (chunk, _) = chunks[&(byte_len, repr)].clone();
                    koto.prelude().insert("s0", KValue::Str(s.as_str().into()));
                    koto.exports_mut().clear();
                    let run = panics::guarded(|| koto.run(chunk));
                    let mut bad_utf8 = Vec::new();
                    match run {
                        Err(p) => {
                            fault_count += 1;
                            if faults.len() < 100 {
                                faults.push(json!({"rule": "panic", "detail": p.signature, "input": s, "repr": repr, "message": p.message}));
                            }
                        }
                        Ok(Err(e)) => {
                            fault_count += 1;
                            if faults.len() < 100 {
                                faults.push(json!({"rule": "batch-error", "detail": e.to_string().chars().take(200).collect::<String>(), "input": s, "repr": repr}));
                            }
                        }
                        Ok(Ok(result)) => {
                            let got = to_v(&result, &mut bad_utf8);
                            let V::Seq(got) = got else {
                                fault_count += 1;
                                faults.push(json!({"rule": "batch-shape", "detail": "not a list", "input": s}));
                                continue;
                            };
                            if got.len() != ops.len() {
                                fault_count += 1;
                                faults.push(json!({"rule": "batch-shape", "detail": format!("{} results for {} operations", got.len(), ops.len()), "input": s}));
                                continue;
                            }
                            for ((code, oracle), g) in ops.iter().zip(got.iter()) {
                                evaluations += 1;
                                let want = oracle(&s);
                                if want == V::Err {
                                    errors_expected += 1;
                                }
                                if *g != want {
                                    fault_count += 1;
                                    if faults.len() < 100 {
                                        faults.push(json!({"rule": "result", "op": code, "input": s, "repr": repr,
                                            "expected": format!("{want:?}"), "got": format!("{g:?}")}));
                                    }
                                }
                            }
                            for b in bad_utf8 {
                                fault_count += 1;
                                if faults.len() < 100 {
                                    faults.push(json!({"rule": "malformed-utf8", "detail": b, "input": s, "repr": repr}));
                                }
                            }
                            if samples.len() < 2 && length == 3 && repr == 1 && strings % 37 == 0 {
                                samples.push(json!({"string": s, "representation": "sub-slice", "operations": ops.len(),
                                    "example": format!("{} -> {:?}", ops[30].0, got[30])}));
                            }
                        }
                    }
                }
            }
            let mut p = length;
            loop {
                if p == 0 {
                    break 'outer;
                }
                p -= 1;
                idx[p] += 1;
                if idx[p] < k {
                    break;
                }
                idx[p] = 0;
            }
        }
    }
    json!({"evaluations": evaluations, "strings": strings, "errors_expected": errors_expected, "fault_count": fault_count, "faults": faults, "samples": samples})
}

// ---- formatting grid ------------------------------------------------------------------------------------------------

fn pad(rendered: &str, width: Option<usize>, fill: &str, align: char, number: bool) -> String {
    let len = rendered.graphemes(true).count();
    let Some(w) = width else { return rendered.to_string() };
    if len >= w {
        return rendered.to_string();
    }
    let n = w - len;
    match align {
        '<' => format!("{rendered}{}", fill.repeat(n)),
        '>' => format!("{}{rendered}", fill.repeat(n)),
        '^' => format!("{}{rendered}{}", fill.repeat(n / 2), fill.repeat(n - n / 2)),
        _ => {
            if number {
                format!("{}{rendered}", fill.repeat(n))
            } else {
                format!("{rendered}{}", fill.repeat(n))
            }
        }
    }
}

pub fn format_grid() -> Value {
    let mut koto = Koto::with_settings(KotoSettings { run_tests: false, ..Default::default() });
    let mut faults: Vec<Value> = Vec::new();
    let mut evaluations = 0u64;
    let mut samples: Vec<Value> = Vec::new();
    #[derive(Clone)]
    enum Val {
        I(i64),
        F(f64),
        S(&'static str),
        N,
    }
    let values: Vec<(&str, Val)> = vec![
        ("0", Val::I(0)), ("60", Val::I(60)), ("-7", Val::I(-7)), ("123456789", Val::I(123456789)), ("1.5", Val::F(1.5)), ("-2.75", Val::F(-2.75)),
        ("0.1", Val::F(0.1)), ("1234.5", Val::F(1234.5)), ("(1 / 3)", Val::F(1.0 / 3.0)), ("100.0", Val::F(100.0)),
        ("'abcd'", Val::S("abcd")), ("''", Val::S("")), ("'é€😀'", Val::S("é€😀")), ("'e\\u{301}x'", Val::S("e\u{301}x")), ("null", Val::N),
    ];
    let fills: Vec<Option<&str>> = vec![None, Some("_"), Some("😀"), Some("}"), Some("0")];
    let aligns = ['\0', '<', '^', '>'];
    let widths: Vec<Option<usize>> = vec![None, Some(0), Some(1), Some(5), Some(12)];
    let precisions: Vec<Option<usize>> = vec![None, Some(0), Some(2)];
    let reprs: Vec<Option<char>> = vec![None, Some('?'), Some('x'), Some('X'), Some('o'), Some('b'), Some('e'), Some('E')];
    for (vexpr, val) in &values {
        for fill in &fills {
            for align in aligns {
                if fill.is_some() && align == '\0' {
                    continue; // a fill character needs an alignment
                }
                for width in &widths {
                    for zero in [false, true] {
                        if zero && (width.is_none() || fill.is_some() || align != '\0' || !matches!(val, Val::I(_) | Val::F(_))) {
                            continue;
                        }
                        for precision in &precisions {
                            for repr in &reprs {
                                // representations: ? for everything, e/E for numbers, x X o b for integers only
                                match (repr, val) {
                                    (Some('x' | 'X' | 'o' | 'b'), Val::I(_)) | (None, _) | (Some('?'), _) => {}
                                    (Some('e' | 'E'), Val::I(_) | Val::F(_)) => {}
                                    _ => continue,
                                }
                                // the guide defines precision for plain numbers and strings; a representation combined with a
                                // precision is only defined for floats (decimal places of the mantissa)
                                if repr.is_some() && precision.is_some() && !matches!(val, Val::F(_)) {
                                    continue;
                                }
                                let mut spec = String::new();
                                if let Some(f) = fill {
                                    spec.push_str(f);
                                }
                                if align != '\0' {
                                    spec.push(align);
                                }
                                if zero {
                                    spec.push('0');
                                }
                                if let Some(w) = width {
                                    spec.push_str(&w.to_string());
                                }
                                if let Some(p) = precision {
                                    spec.push_str(&format!(".{p}"));
                                }
                                if let Some(r) = repr {
                                    spec.push(*r);
                                }
                                if spec.is_empty() {
                                    continue;
                                }
                                // oracle: render, then pad
                                let rendered = match (val, repr, precision) {
                                    (Val::I(i), Some('x'), _) => format!("{i:x}"),
                                    (Val::I(i), Some('X'), _) => format!("{i:X}"),
                                    (Val::I(i), Some('o'), _) => format!("{i:o}"),
                                    (Val::I(i), Some('b'), _) => format!("{i:b}"),
                                    (Val::I(i), Some('e'), _) => format!("{i:e}"),
                                    (Val::I(i), Some('E'), _) => format!("{i:E}"),
                                    (Val::I(i), _, Some(p)) => format!("{:.*}", *p, *i as f64),
                                    (Val::I(i), _, None) => format!("{i}"),
                                    (Val::F(f), Some('e'), Some(p)) => format!("{:.*e}", *p, f),
                                    (Val::F(f), Some('E'), Some(p)) => format!("{:.*E}", *p, f),
                                    (Val::F(f), Some('e'), None) => format!("{f:e}"),
                                    (Val::F(f), Some('E'), None) => format!("{f:E}"),
                                    (Val::F(f), _, Some(p)) => format!("{:.*}", *p, f),
                                    (Val::F(f), _, None) => {
                                        if f.fract() == 0.0 { format!("{f:.1}") } else { format!("{f}") }
                                    }
                                    (Val::S(s), r, p) => {
                                        let shown = if *r == Some('?') { format!("'{s}'") } else { s.to_string() };
                                        match p {
                                            Some(p) => shown.graphemes(true).take(*p).collect::<String>(),
                                            None => shown,
                                        }
                                    }
                                    (Val::N, _, p) => match p {
                                        Some(p) => "null".graphemes(true).take(*p).collect::<String>(),
                                        None => "null".to_string(),
                                    },
                                };
                                let number = matches!(val, Val::I(_) | Val::F(_));
                                let (fill_s, align_c) = if zero { ("0", '>') } else { (fill.unwrap_or(" "), align) };
                                let want = pad(&rendered, *width, fill_s, align_c, number);
                                let src = format!("'{{{vexpr}:{spec}}}'");
                                evaluations += 1;
                                let got = panics::guarded(|| koto.compile_and_run(src.as_str()));
                                let got_text = match got {
                                    Ok(Ok(KValue::Str(s))) => s.to_string(),
                                    Ok(Ok(other)) => format!("<{}>", other.type_as_string()),
                                    Ok(Err(e)) => format!("<error: {}>", e.to_string().lines().next().unwrap_or("")),
                                    Err(p) => format!("<panic: {}>", p.signature),
                                };
                                // width law: at least the requested width in graphemes
                                let width_ok = width.map_or(true, |w| got_text.graphemes(true).count() >= w || got_text.starts_with('<'));
                                if got_text != want || !width_ok {
                                    if faults.len() < 200 {
                                        faults.push(json!({"rule": if width_ok {"format-result"} else {"format-width"}, "src": src, "expected": want, "got": got_text}));
                                    }
                                }
                                if samples.len() < 3 && evaluations % 997 == 0 {
                                    samples.push(json!({"src": src, "result": got_text}));
                                }
                            }
                        }
                    }
                }
            }
        }
    }
    json!({"evaluations": evaluations, "fault_count": faults.len(), "faults": faults, "samples": samples})
}
