"""kgen: seeded generator over the model AST (DESIGN.md 3.3.3).

Programs are typed by construction (operand kinds are chosen, not accidental), terminating by
construction (finite iterables, protected decreasing counters, fuel), and avoid the recorded defect
shapes of known_findings.json (shape guards SG-*) in the default streams."""
import random

KINDS = ("int", "float", "bool", "str", "list", "tuple", "map", "null")

WORDS = ["a", "b", "ab", "koto", "x y", "z9", "", "Q", "hello", "né", "é", "日本"]

class Var:
    __slots__ = ("name", "kind", "protected", "elem", "keys")
    def __init__(self, name, kind, protected=False, elem=None, keys=None):
        self.name, self.kind, self.protected, self.elem, self.keys = name, kind, protected, elem, keys

class Scope:
    def __init__(self, parent=None):
        self.vars = {}
        self.parent = parent
    def all(self):
        return list(self.vars.values())
    def of_kind(self, kind):
        return [v for v in self.vars.values() if v.kind == kind]

class Gen:
    def __init__(self, rng, max_depth=3, stmts=8, features=None):
        self.rng = rng
        self.max_depth = max_depth
        self.n_stmts = stmts
        self.uid = 0
        self.trace_id = 0
        self.features = features or set()
        self.loop_depth = 0
        self.loop_value_used = []
        self.fn_depth = 0
        self.in_generator = False
        self.budget = 400        # node budget per program

    KEYWORD_PREFIXES = ["if", "else", "then", "and", "or", "not", "in", "as", "for", "while", "until", "loop", "match", "switch", "try", "catch", "finally", "throw", "return", "yield",
                        "break", "continue", "let", "export", "import", "from", "null", "true", "false", "self", "debug", "await", "const"]
    def fresh(self, prefix="v"):
        """Some identifiers begin with a keyword (`ifv3`, `elsea7`, `notx2`): a keyword is only a keyword up to a word boundary."""
        self.uid += 1
        if prefix != "p" and self.rng.random() < 0.12:
            prefix = self.KEYWORD_PREFIXES[self.rng.randrange(len(self.KEYWORD_PREFIXES))] + prefix
        return "%s%d" % (prefix, self.uid)

    def chance(self, p):
        return self.rng.random() < p

    def pick(self, xs):
        return xs[self.rng.randrange(len(xs))]

    # ---- expressions by kind ----------------------------------------------------------------
    def lit_int(self):
        r = self.rng.random()
        if r < 0.6: return ("int", self.rng.randint(-9, 20))
        if r < 0.8: return ("int", self.rng.randint(-300, 1000))
        if r < 0.9: return ("int", self.pick([0, 1, -1, 255, 256, -255, -256, 65535, 65536]))
        return ("int", self.pick([9223372036854775807, -9223372036854775807, 4611686018427387904, 2147483648, -2147483649]))
    def lit_float(self):
        if self.chance(0.1): return ("float", self.pick([0.0, -0.0, 1e10, 0.1, 1.5e-7, 1e21, 123456.789]))
        return ("float", self.rng.randint(-40, 80) / 4.0)
    def lit_str(self):
        return ("str", [self.pick(WORDS)])

    def maybe_trace(self, e):
        if self.chance(0.12):
            self.trace_id += 1
            return ("trace", self.trace_id, e)
        return e

    def expr(self, kind, sc, d=0):
        self.budget -= 1
        if self.budget < 0 or d >= self.max_depth:
            return self.leaf(kind, sc)
        e = getattr(self, "x_" + kind)(sc, d)
        return self.maybe_trace(e)

    def leaf(self, kind, sc):
        vs = sc.of_kind(kind)
        if vs and self.chance(0.6):
            return ("var", self.pick(vs).name)
        if kind == "int": return self.lit_int()
        if kind == "float": return self.lit_float()
        if kind == "bool": return ("bool", self.chance(0.5))
        if kind == "str": return self.lit_str()
        if kind == "null": return ("null",)
        if kind == "list": return ("list", [self.lit_int() for _ in range(self.rng.randint(0, 3))])
        if kind == "tuple": return ("tuple", [self.lit_int() for _ in range(self.rng.randint(0, 3))])
        if kind == "map": return ("map", [(k, self.lit_int()) for k in self.rng.sample(["a", "b", "c", "d"], self.rng.randint(0, 3))])
        if kind == "any": return self.leaf(self.pick(KINDS), sc)
        raise ValueError(kind)

    def num(self, sc, d):
        return self.expr("int" if self.chance(0.7) else "float", sc, d)

    def x_int(self, sc, d):
        r = self.rng.random()
        if r < 0.2: return self.leaf("int", sc)
        if r < 0.55:
            op = self.pick(["+", "-", "*", "+", "-", "%", "^"])
            a = self.expr("int", sc, d + 1)
            if op == "^":
                b = ("int", self.rng.randint(0, 5)) if self.chance(0.93) else ("int", self.pick([63, 64, 65, 4294967295, 4294967296, 4294967297, 4611686018427387904, 9223372036854775807]))
            elif op == "%":
                b = self.expr("int", sc, d + 1)
            else:
                b = self.expr("int", sc, d + 1)
            return ("bin", op, a, b)
        if r < 0.62: return ("neg", self.expr("int", sc, d + 1))
        if r < 0.72:
            # index into a list literal / variable with a valid index
            n = self.rng.randint(1, 4)
            items = [self.expr("int", sc, d + 1) for _ in range(n)]
            c = ("list", items) if self.chance(0.5) else ("tuple", items)
            return ("index", c, ("int", self.rng.randrange(n)))
        if r < 0.8:
            return ("if", [(self.expr("bool", sc, d + 1), [self.expr("int", sc, d + 1)])], [self.expr("int", sc, d + 1)])
        if r < 0.86:
            # and/or yield an operand: ints are always truthy
            op = self.pick(["and", "or"])
            return ("bin", op, self.expr("int", sc, d + 1), self.expr("int", sc, d + 1))
        if r < 0.92:
            return ("call", ("var", "size"), [self.expr(self.pick(["list", "tuple", "str", "map"]), sc, d + 1)])
        if r < 0.96 and "fn" in self.features and sc.of_kind("fn_int"):
            return self.call_fn(sc, d)
        return ("paren", self.expr("int", sc, d + 1))
    def x_float(self, sc, d):
        r = self.rng.random()
        if r < 0.25: return self.leaf("float", sc)
        if r < 0.5: return ("bin", "/", self.num(sc, d + 1), self.num(sc, d + 1))
        if r < 0.85:
            op = self.pick(["+", "-", "*", "%"])
            a, b = self.expr("float", sc, d + 1), self.num(sc, d + 1)
            if self.chance(0.5): a, b = b, a
            return ("bin", op, a, b)
        if r < 0.92: return ("neg", self.expr("float", sc, d + 1))
        return ("bin", "^", self.expr("float", sc, d + 1), ("int", self.rng.randint(-2, 3)))
    def x_bool(self, sc, d):
        r = self.rng.random()
        if r < 0.15: return self.leaf("bool", sc)
        if r < 0.45:
            op = self.pick(["<", "<=", ">", ">=", "==", "!="])
            if self.chance(0.8):
                return ("bin", op, self.num(sc, d + 1), self.num(sc, d + 1))
            return ("bin", op, self.expr("str", sc, d + 1), self.expr("str", sc, d + 1))
        if r < 0.6:
            k = self.pick(KINDS)
            k2 = k if self.chance(0.7) else self.pick(KINDS)
            return ("bin", self.pick(["==", "!="]), self.expr(k, sc, d + 1), self.expr(k2, sc, d + 1))
        if r < 0.75:
            return ("bin", self.pick(["and", "or"]), self.expr("bool", sc, d + 1), self.expr("bool", sc, d + 1))
        if r < 0.85:
            return ("not", self.expr(self.pick(["bool", "int", "null", "str"]), sc, d + 1))
        n = self.rng.randint(3, 4)
        ops = [self.pick(["<", "<=", ">", ">="]) for _ in range(n - 1)]
        return ("cmpchain", [self.maybe_trace(self.num(sc, d + 1)) for _ in range(n)], ops)
    def x_str(self, sc, d):
        r = self.rng.random()
        if r < 0.25: return self.leaf("str", sc)
        if r < 0.45: return ("bin", "+", self.expr("str", sc, d + 1), self.expr("str", sc, d + 1))
        if r < 0.85:
            parts = []
            for _ in range(self.rng.randint(1, 3)):
                if self.chance(0.5): parts.append(self.pick(WORDS))
                k = self.pick(["int", "float", "bool", "str", "list", "tuple", "map", "null"])
                e = self.expr(k, sc, d + 1)
                if self.has_kind(e, "map"):
                    # a map literal nested in a map literal inside a placeholder does not lex (':' is taken
                    # for the start of format options): placeholders hold map values through variables only
                    e = self.leaf("int", sc)
                parts.append(("interp", e))
            if self.chance(0.5): parts.append(self.pick(WORDS))
            return ("str", parts)
        # slice of an ASCII literal
        w = self.pick(["hello", "koto", "abcdef"])
        lo = self.rng.randint(0, len(w)); hi = self.rng.randint(lo, len(w) + 2)
        return ("index", ("str", [w]), ("range", ("int", lo), ("int", hi), self.chance(0.3) and hi < len(w)))
    def x_null(self, sc, d):
        if self.chance(0.5): return ("null",)
        return ("if", [(self.expr("bool", sc, d + 1), [("null",)])], None)
    def elems(self, sc, d, lo=0, hi=4):
        k = self.pick(["int", "int", "str", "float", "bool", "any"])
        return [self.expr(k if k != "any" else self.pick(KINDS), sc, d + 1) for _ in range(self.rng.randint(lo, hi))]
    def x_list(self, sc, d):
        r = self.rng.random()
        if r < 0.15: return self.leaf("list", sc)
        if r < 0.7: return ("list", self.elems(sc, d))
        if r < 0.85: return ("bin", "+", self.expr("list", sc, d + 1), self.expr("list", sc, d + 1))
        return ("index", self.expr("list", sc, d + 1), self.range_lit(sc, d))
    def x_tuple(self, sc, d):
        r = self.rng.random()
        if r < 0.15: return self.leaf("tuple", sc)
        if r < 0.7: return ("tuple", self.elems(sc, d))
        if r < 0.85: return ("bin", "+", self.expr("tuple", sc, d + 1), self.expr("tuple", sc, d + 1))
        return ("index", self.expr("tuple", sc, d + 1), self.range_lit(sc, d))
    def range_lit(self, sc, d):
        lo = None if self.chance(0.2) else ("int", self.rng.randint(0, 4))
        hi = None if self.chance(0.2) else ("int", self.rng.randint(0, 6))
        return ("range", lo, hi, hi is not None and self.chance(0.3))
    def x_map(self, sc, d):
        if self.chance(0.15): return self.leaf("map", sc)
        keys = self.rng.sample(["a", "b", "c", "d", "k e", "f1"], self.rng.randint(0, 4))
        m = ("map", [(k, self.expr(self.pick(KINDS), sc, d + 1)) for k in keys])
        if self.chance(0.15):
            return ("bin", "+", m, self.expr("map", sc, d + 1))
        return m
    def x_any(self, sc, d):
        return self.expr(self.pick(KINDS), sc, d)

    # ---- statements -------------------------------------------------------------------------
    def has_kind(self, e, kind):
        if isinstance(e, tuple):
            if e and e[0] == kind: return True
            return any(self.has_kind(x, kind) for x in e)
        if isinstance(e, list):
            return any(self.has_kind(x, kind) for x in e)
        return False

    def reads(self, e, name):
        if isinstance(e, tuple):
            if e and e[0] == "var" and e[1] == name: return True
            return any(self.reads(x, name) for x in e)
        if isinstance(e, list):
            return any(self.reads(x, name) for x in e)
        return False

    def transparent(self, e):
        """RHS roots that are safe to compile straight into a live variable's register (SG-A1)."""
        if e[0] == "paren":
            return self.transparent(e[1])
        return e[0] in ("var", "int", "float", "null", "bool", "call", "mcall", "trace", "index", "neg", "cmpchain") or \
            (e[0] == "bin" and e[1] in ("+", "-", "*", "/", "%", "^", "<", "<=", ">", ">=", "==", "!="))

    def assign_stmts(self, sc, name, kind, e, live):
        """v = E, routing through a temporary when the recorded shape F-A1 would be hit."""
        if live and self.reads(e, name) and not self.transparent(e):
            tmp = self.fresh("tmp")
            sc.vars[tmp] = Var(tmp, kind, protected=True)
            return [("assign", ("var", tmp), e), ("assign", ("var", name), ("var", tmp))]
        return [("assign", ("var", name), e)]

    HINTS = {"int": ["Number", "Number?", "Any"], "float": ["Number", "Any"], "bool": ["Bool", "Bool?"], "str": ["String", "Indexable", "Iterable", "String?"],
             "list": ["List", "Indexable", "Iterable", "Any"], "tuple": ["Tuple", "Indexable", "Iterable"], "map": ["Map", "Indexable", "Iterable", "Map?"], "null": ["Null", "Number?", "Any"]}
    def hint_for(self, kind):
        if self.chance(0.04):
            # a wrong hint: the program fails when checks are on (and the on/off relation does not apply)
            return self.pick(["Number", "String", "List", "Map", "Bool", "Tuple", "Null", "Callable"])
        return self.pick(self.HINTS[kind])

    def self_chain(self, sc, d):
        """t = <number>; t = a < t < b: the assignment target is an operand of the comparison chain that is compiled into it."""
        t = self.fresh("t")
        first = [("assign", ("var", t), self.num(sc, d + 1))]
        n = self.rng.randint(3, 4)
        operands = [self.maybe_trace(self.num(sc, d + 1)) for _ in range(n)]
        for k in self.rng.sample(range(n), self.rng.randint(1, 2)):
            operands[k] = ("var", t)
        ops = [self.pick(["<", "<=", ">", ">="]) for _ in range(n - 1)]      # (== and != bind less tightly: not part of one chain)
        sc.vars[t] = Var(t, "bool")
        return first + [("assign", ("var", t), ("cmpchain", operands, ops)), ("print", [("var", t)])]

    def self_opassign(self, sc, d):
        """a = (l[0] += a) / a = (m.k -= a): the value assigned to `a` is the updated element, the right-hand side is `a` itself."""
        a, c = self.fresh("a"), self.fresh("c")
        op = self.pick(["+", "-", "*"])
        if self.chance(0.5):
            init = ("list", [self.lit_int(), self.lit_int()])
            target = ("index", ("var", c), ("int", self.rng.randint(0, 1)))
            sc.vars[c] = Var(c, "list", protected=True)
        else:
            init = ("map", [("k", self.lit_int())])
            target = ("access", ("var", c), "k")
            sc.vars[c] = Var(c, "map", protected=True)
        sc.vars[a] = Var(a, "int")
        rhs = ("var", a) if self.chance(0.7) else ("bin", "+", ("var", a), ("int", 1))
        return [("assign", ("var", c), init), ("assign", ("var", a), self.lit_int()), ("assign", ("var", a), ("paren", ("opassign", op, target, rhs))), ("print", [("var", a), ("var", c)])]

    def stmt(self, sc, d):
        self.budget -= 1
        if self.chance(0.03):
            return self.self_chain(sc, d)
        if self.chance(0.02):
            return self.self_opassign(sc, d)
        r = self.rng.random()
        vs = [v for v in sc.all() if not v.protected and v.kind in KINDS]
        if r < 0.16 or not vs:
            kind = self.pick(KINDS[:7])
            name = self.fresh()
            e = self.expr(kind, sc, d)
            target = ("var", name)
            if "hints" in self.features and self.chance(0.6):
                target = ("var", name, self.hint_for(kind))
            out = [("assign", target, e)]
            sc.vars[name] = Var(name, kind)
            return out
        if r < 0.3:
            return [("print", [self.expr(self.pick(KINDS), sc, d) for _ in range(1 if self.chance(0.7) else 2)])]
        if r < 0.42:
            v = self.pick(vs)
            e = self.expr(v.kind, sc, d)
            if self.loop_depth > 0 and v.kind in ("str", "list", "tuple", "map") and self.reads(e, v.name):
                # no self-referential growth inside loops (x = x + x doubles per iteration)
                e = self.leaf(v.kind, Scope())
            return self.assign_stmts(sc, v.name, v.kind, e, True)
        if r < 0.5:
            nums = [v for v in vs if v.kind in ("int", "float")]
            if nums:
                v = self.pick(nums)
                op = self.pick(["+", "-", "*"]) if v.kind == "int" else self.pick(["+", "-", "*", "/"])
                return [("opassign", op, ("var", v.name), self.expr(v.kind if v.kind == "int" else "float", sc, d + 1))]
        if r < 0.58:
            return self.container_update(sc, d, vs)
        if r < 0.7 and d < self.max_depth:
            return [self.if_stmt(sc, d)]
        if r < 0.75 and d < self.max_depth:
            return [self.switch_stmt(sc, d)]
        if r < 0.9 and d < self.max_depth and self.loop_depth < 2:
            return self.loop_stmt(sc, d)
        if r < 0.94 and self.loop_depth > 0:
            return [self.loop_exit(sc, d)]
        if self.chance(0.45):
            # a logic expression in statement position (value discarded): it still short-circuits, the traces show which
            # operands ran
            lhs = ("trace", self.next_trace(), self.expr(self.pick(["bool", "bool", "int", "str"]), sc, d + 1) if self.chance(0.8) else ("null",))
            rhs = ("trace", self.next_trace(), self.expr(self.pick(KINDS), sc, d + 1))
            e = ("bin", self.pick(["and", "or"]), lhs, rhs)
            if self.chance(0.3):
                e = ("bin", self.pick(["and", "or"]), e, ("trace", self.next_trace(), self.expr("bool", sc, d + 1)))
            return [e]
        return [("trace", self.next_trace(), self.expr(self.pick(KINDS), sc, d + 1))]

    def next_trace(self):
        self.trace_id += 1
        return self.trace_id

    def container_update(self, sc, d, vs):
        lists = [v for v in vs if v.kind == "list"]
        maps = [v for v in vs if v.kind == "map"]
        if lists and self.chance(0.5):
            v = self.pick(lists)
            # push then assign at index 0 (always valid after a push)
            out = [("mcall", ("var", v.name), "push", [self.expr("int", sc, d + 1)])]
            if self.chance(0.6):
                out.append(("assign", ("index", ("var", v.name), ("int", 0)), self.expr(self.pick(["int", "str"]), sc, d + 1)))
            return out
        if maps:
            v = self.pick(maps)
            key = self.pick(["a", "b", "n1"])
            out = [("assign", ("access", ("var", v.name), key), self.expr("int", sc, d + 1))]
            if self.chance(0.5):
                out.append(("opassign", self.pick(["+", "-", "*"]), ("access", ("var", v.name), key), self.expr("int", sc, d + 1)))
            return out
        name = self.fresh()
        sc.vars[name] = Var(name, "list")
        return [("assign", ("var", name), ("list", [self.lit_int()]))]

    def body(self, sc, d, n=None):
        """A nested block: names first assigned inside it are not definitely assigned afterwards, so
        they stay invisible to the code that follows (child scope)."""
        inner = Scope(sc)
        inner.vars = dict(sc.vars)
        out = []
        for _ in range(n or self.rng.randint(1, 3)):
            if self.budget < 0: break
            out += self.stmt(inner, d + 1)
        return out or [("null",)]

    def if_stmt(self, sc, d):
        arms = [(self.expr("bool" if self.chance(0.8) else self.pick(["int", "null", "str"]), sc, d + 1), self.body(sc, d))]
        while self.chance(0.3) and len(arms) < 3:
            arms.append((self.expr("bool", sc, d + 1), self.body(sc, d)))
        els = self.body(sc, d) if self.chance(0.6) else None
        return ("if", arms, els, "block")
    def switch_stmt(self, sc, d):
        arms = [(self.expr("bool", sc, d + 1), self.body(sc, d, 1)) for _ in range(self.rng.randint(1, 3))]
        if self.chance(0.6):
            arms.append((None, self.body(sc, d, 1)))
        return ("switch", arms)

    def loop_stmt(self, sc, d):
        r = self.rng.random()
        self.loop_depth += 1
        try:
            result_var = None
            prefix = []
            if self.chance(0.3):
                result_var = self.fresh("r")
            self.loop_value_used.append(result_var is not None)
            if r < 0.45:
                # for over a finite iterable
                x = self.fresh("i")
                kind_r = self.rng.random()
                if kind_r < 0.5:
                    lo = self.rng.randint(-2, 3); hi = lo + self.rng.randint(0, 4)
                    it = ("range", ("int", lo), ("int", hi), self.chance(0.3)); ek = "int"
                elif kind_r < 0.7:
                    it = ("list", [self.expr("int", sc, d + 1) for _ in range(self.rng.randint(0, 4))]); ek = "int"
                elif kind_r < 0.8:
                    it = ("tuple", [self.expr("str", sc, d + 1) for _ in range(self.rng.randint(0, 3))]); ek = "str"
                elif kind_r < 0.9:
                    it = ("str", [self.pick(["abc", "hé", "", "xyz日"])]); ek = "str"
                else:
                    vs = [v for v in sc.of_kind("tuple")]
                    it = ("var", self.pick(vs).name) if vs else ("tuple", [self.lit_int(), self.lit_int()]); ek = "any_elem"
                inner = Scope(sc); inner.vars = dict(sc.vars)
                inner.vars[x] = Var(x, ek if ek in KINDS else "opaque", protected=True)
                body = self.body(inner, d)
                if result_var is not None and self.chance(0.5):
                    # the loop's value comes from a nested value loop that runs zero times on some passes:
                    # its result register is the outer one and still holds the previous pass' value
                    j = self.fresh("j")
                    n_in = self.rng.randint(0, 3)
                    cnt = self.fresh("n")
                    body = [("opassign", "+", ("var", cnt), ("int", 1))] + body + [("for", [("var", j)], ("range", ("var", cnt), ("int", n_in), False), [("bin", "*", ("var", j), ("int", 10))])]
                    prefix = prefix + [("assign", ("var", cnt), ("int", 0))]
                    sc.vars[cnt] = Var(cnt, "int", protected=True)
                xt = ("var", x)
                if "hints" in self.features and ek in KINDS and self.chance(0.5):
                    xt = ("var", x, self.hint_for(ek))
                loop = ("for", [xt], it, body)
            elif r < 0.8:
                c = self.fresh("c")
                n = self.rng.randint(0, 4)
                prefix = [("assign", ("var", c), ("int", 0))]
                sc.vars[c] = Var(c, "int", protected=True)
                inc = ("opassign", "+", ("var", c), ("int", 1))
                body = [inc] + self.body(sc, d)
                if self.chance(0.7):
                    loop = ("while", ("bin", "<", ("var", c), ("int", n)), body)
                else:
                    loop = ("until", ("bin", ">=", ("var", c), ("int", n)), body)
            else:
                c = self.fresh("c")
                n = self.rng.randint(1, 4)
                prefix = [("assign", ("var", c), ("int", 0))]
                sc.vars[c] = Var(c, "int", protected=True)
                inc = ("opassign", "+", ("var", c), ("int", 1))
                brk = ("if", [(("bin", ">=", ("var", c), ("int", n)), [("break", self.expr("int", sc, d + 1) if (result_var is not None and self.chance(0.6)) else None)])], None)
                body = [inc, brk] + self.body(sc, d)
                loop = ("loop", body)
            if result_var is not None:
                sc.vars[result_var] = Var(result_var, "opaque", protected=True)
                return prefix + [("assign", ("var", result_var), loop), ("print", [("var", result_var)])]
            return prefix + [loop]
        finally:
            self.loop_depth -= 1
            if len(self.loop_value_used) > self.loop_depth:
                self.loop_value_used.pop()

    def loop_exit(self, sc, d):
        cond = self.expr("bool", sc, d + 1)
        if self.chance(0.5):
            return ("if", [(cond, [("continue",)])], None)
        used = bool(self.loop_value_used and self.loop_value_used[-1])
        return ("if", [(cond, [("break", self.expr("int", sc, d + 1) if (used and self.chance(0.5)) else None)])], None)

    def program(self):
        sc = Scope()
        sc.vars["size"] = Var("size", "builtin", protected=True)
        out = []
        for _ in range(self.n_stmts):
            if self.budget < 0: break
            out += self.stmt(sc, 0)
        # final expression: its display is the script's result
        printable = [v for v in sc.all() if v.kind in KINDS]
        for v in printable[:6]:
            out.append(("print", [("var", v.name)]))
        out.append(self.expr(self.pick(["int", "str", "list", "tuple", "map", "bool", "float"]), sc, 1))
        return out


# =================================================================================================
# fn profile (C02): functions, closures, generators
# =================================================================================================
class FnSig:
    __slots__ = ("params", "n_req", "n_opt", "variadic", "ret", "is_gen", "method_of")
    def __init__(self, params, n_req, n_opt, variadic, ret, is_gen=False, method_of=None):
        self.params, self.n_req, self.n_opt, self.variadic, self.ret, self.is_gen, self.method_of = params, n_req, n_opt, variadic, ret, is_gen, method_of

class GenFn(Gen):
    """Adds function definitions, call forms, closures, recursion and generators to the core profile."""
    def __init__(self, rng, **kw):
        super().__init__(rng, **kw)
        self.features = set(self.features) | {"fn"}
        self.fn_nesting = 0

    # ---- definitions ------------------------------------------------------------------------
    def free_names(self, body, params_names):
        names = set()
        def walk(e):
            if isinstance(e, tuple):
                if e and e[0] == "var":
                    names.add(e[1]); return
                if e and e[0] == "fn":
                    for x in e[5]: names.add(x)
                    for _, dflt in e[1]:
                        if dflt is not None: walk(dflt)
                    return
                for x in e: walk(x)
            elif isinstance(e, list):
                for x in e: walk(x)
        walk(body)
        return sorted(n for n in names if n not in params_names)

    def make_params(self, sc, d):
        """Returns (param nodes, bound vars [(name, kind)], sig shape list)."""
        params, bound, shapes = [], [], []
        n_req = self.rng.randint(0, 3)
        for _ in range(n_req):
            r = self.rng.random()
            if r < 0.65:
                n = self.fresh("a")
                pt = ("var", n, self.hint_for("int")) if ("hints" in self.features and self.chance(0.5)) else ("var", n)
                params.append((pt, None)); bound.append((n, "int")); shapes.append("int")
            elif r < 0.75:
                params.append((("ignore",), None)); shapes.append("int")
            elif r < 0.85:
                a, b = self.fresh("a"), self.fresh("a")
                params.append((("tpat", [("var", a), ("var", b)]), None)); bound += [(a, "int"), (b, "int")]; shapes.append("pair")
            elif r < 0.93:
                a, rest = self.fresh("a"), self.fresh("a")
                if self.chance(0.5):
                    params.append((("tpat", [("var", a), ("rest", rest)]), None))
                else:
                    params.append((("tpat", [("rest", rest), ("var", a)]), None))
                bound += [(a, "int"), (rest, "tuple")]; shapes.append("seq1")
            else:
                a, b = self.fresh("a"), self.fresh("a")
                params.append((("mpat", [("x", a), ("y", b)]), None)); bound += [(a, "int"), (b, "int")]; shapes.append("mapxy")
        n_opt = self.rng.randint(0, 2) if self.chance(0.5) else 0
        for _ in range(n_opt):
            n = self.fresh("a")
            dflt = self.expr("int", sc, d + 2)
            if self.chance(0.5):
                dflt = ("trace", self.next_trace(), dflt)
            params.append((("var", n), dflt)); bound.append((n, "int")); shapes.append("int")
        variadic = None
        if self.chance(0.25):
            variadic = self.fresh("xs"); bound.append((variadic, "tuple"))
        return params, bound, shapes, n_req, n_opt, variadic

    def fn_scope(self, sc, bound):
        """Scope inside a function body: parameters plus read-only copies of the enclosing names (captured by copy);
        lists and maps reached through captures stay shared and may be mutated through methods."""
        inner = Scope(sc)
        for v in sc.all():
            inner.vars[v.name] = Var(v.name, v.kind, protected=True, elem=v.elem, keys=v.keys)
        for n, k in bound:
            inner.vars[n] = Var(n, k)
        return inner

    def def_function(self, sc, d):
        name = self.fresh("f")
        params, bound, shapes, n_req, n_opt, variadic = self.make_params(sc, d)
        inner = self.fn_scope(sc, bound)
        self.fn_nesting += 1
        saved_loop, self.loop_depth = self.loop_depth, 0
        saved_used, self.loop_value_used = self.loop_value_used, []
        try:
            body = []
            for _ in range(self.rng.randint(0, 3)):
                if self.budget < 0: break
                body += self.stmt(inner, d + 1)
            if self.chance(0.25):
                cond = self.expr("bool", inner, d + 2)
                body.append(("if", [(cond, [("return", self.expr("int", inner, d + 2))])], None, "block"))
            if variadic and self.chance(0.7):
                body.append(("bin", "+", self.expr("int", inner, d + 1), ("call", ("var", "size"), [("var", variadic)])))
            else:
                body.append(self.expr("int", inner, d + 1))
        finally:
            self.fn_nesting -= 1
            self.loop_depth = saved_loop
            self.loop_value_used = saved_used
        pnames = {n for n, _ in bound}
        node = ("fn", params, variadic, body, False, self.free_names(body, pnames) , "block" if self.chance(0.5) else None)
        sig = FnSig(shapes, n_req, n_opt, variadic is not None, "int")
        sc.vars[name] = Var(name, "fn_int", protected=True, keys=sig)
        return [("assign", ("var", name), node)]

    def def_recursive(self, sc, d):
        name = self.fresh("rec")
        n = self.fresh("n")
        acc = self.expr("int", self.fn_scope(sc, [(n, "int")]), d + 2)
        body = [("if", [(("bin", "<=", ("var", n), ("int", 0)), [acc])],
                 [("bin", self.pick(["+", "*", "-"]), ("var", n), ("call", ("var", name), [("bin", "-", ("var", n), ("int", 1))]))])]
        if self.chance(0.5):
            # self reference combined with default values: the function captures itself *and* its defaults
            accn = self.fresh("acc")
            dflt = ("int", self.rng.randint(-3, 9))
            body = [("if", [(("bin", "<=", ("var", n), ("int", 0)), [("var", accn)])],
                     [("call", ("var", name), [("bin", "-", ("var", n), ("int", 1)), ("bin", self.pick(["+", "-"]), ("var", accn), ("var", n))])])]
            node = ("fn", [(("var", n), None), (("var", accn), dflt)], None, body, False, self.free_names(body, {n, accn}), None)
            sig = FnSig(["small", "int"], 1, 1, False, "int")
            sc.vars[name] = Var(name, "fn_int", protected=True, keys=sig)
            return [("assign", ("var", name), node)]
        node = ("fn", [(("var", n), None)], None, body, False, self.free_names(body, {n}), None)
        sig = FnSig(["small"], 1, 0, False, "int")
        sc.vars[name] = Var(name, "fn_int", protected=True, keys=sig)
        return [("assign", ("var", name), node)]

    def def_factory(self, sc, d):
        name = self.fresh("mk")
        a, b = self.fresh("a"), self.fresh("b")
        inner = self.fn_scope(sc, [(a, "int"), (b, "int")])
        inner_body = [self.expr("int", inner, d + 2)]
        inner_fn = ("fn", [(("var", b), None)], None, inner_body, False, self.free_names(inner_body, {b}), None)
        node = ("fn", [(("var", a), None)], None, [inner_fn], False, self.free_names([inner_fn], {a}), None)
        made = self.fresh("f")
        sig = FnSig(["int"], 1, 0, False, "int")
        sc.vars[name] = Var(name, "opaque", protected=True)
        arg = self.expr("int", sc, d + 1)
        sc.vars[made] = Var(made, "fn_int", protected=True, keys=sig)
        return [("assign", ("var", name), node), ("assign", ("var", made), ("call", ("var", name), [arg]))]

    def def_method_map(self, sc, d):
        name = self.fresh("obj")
        n = self.fresh("n")
        field = self.pick(["v", "count"])
        inner = self.fn_scope(sc, [(n, "int")])
        get_body = [("bin", "+", ("access", ("self",), field), self.expr("int", self.fn_scope(sc, []), d + 2))]
        add_body = [("opassign", "+", ("access", ("self",), field), ("var", n)), ("access", ("self",), field)]
        m = ("map", [(field, self.expr("int", sc, d + 1)),
                     ("get", ("fn", [], None, get_body, False, self.free_names(get_body, set()), None)),
                     ("add", ("fn", [(("var", n), None)], None, add_body, False, self.free_names(add_body, {n}), "block"))])
        sc.vars[name] = Var(name, "obj", protected=True, keys=field)
        return [("assign", ("var", name), m)]

    def def_generator(self, sc, d):
        name = self.fresh("g")
        n = self.fresh("n")
        inner = self.fn_scope(sc, [(n, "int")])
        i = self.fresh("i")
        r = self.rng.random()
        if r < 0.4:
            inner.vars[i] = Var(i, "int", protected=True)
        y1 = ("yield", self.maybe_trace(self.expr("int", inner, d + 2)))
        if r < 0.4:
            body = [("for", [("var", i)], ("range", ("int", 0), ("var", n), False), [y1] + ([("if", [(self.expr("bool", inner, d + 2), [("yield", self.expr("int", inner, d + 2))])], None, "block")] if self.chance(0.4) else []))]
        elif r < 0.6:
            body = [y1, ("yield", self.expr("int", inner, d + 2)), ("if", [(self.expr("bool", inner, d + 2), [("return", None)])], None, "block"), ("yield", ("var", n))]
        elif r < 0.8:
            c = self.fresh("c")
            body = [("assign", ("var", c), ("int", 0)), ("while", ("bin", "<", ("var", c), ("var", n)), [("opassign", "+", ("var", c), ("int", 1)), ("yield", ("bin", "*", ("var", c), self.expr("int", inner, d + 2)))])]
        else:
            has_finally = self.chance(0.5)
            # SG-B1: with a finally block the handler must not be able to fail (a failing handler skips finally: finding F-B1);
            # an arbitrary int expression can fail through a hinted call or an overflowing index
            handler_value = ("int", self.rng.randint(-9, 99)) if has_finally else self.expr("int", inner, d + 2)
            body = [("try", [y1, ("throw", ("str", ["boom"])), ("yield", ("int", -1))], [(("var", "e"), None, [("yield", handler_value)])], [("yield", ("int", 99))] if has_finally else None)]
        node = ("fn", [(("var", n), None)], None, body, True, self.free_names(body, {n, i}), "block")
        sc.vars[name] = Var(name, "gen", protected=True)
        return [("assign", ("var", name), node)]

    # ---- calls ------------------------------------------------------------------------------
    def arg_for(self, shape, sc, d):
        if shape == "int": return self.expr("int", sc, d + 1)
        if shape == "small": return ("int", self.rng.randint(0, 5))
        if shape == "pair":
            items = [self.expr("int", sc, d + 1), self.expr("int", sc, d + 1)]
            return ("tuple", items) if self.chance(0.6) else ("list", items)
        if shape == "seq1":
            items = [self.expr("int", sc, d + 1) for _ in range(self.rng.randint(1, 4))]
            return ("tuple", items) if self.chance(0.6) else ("list", items)
        if shape == "mapxy":
            entries = [("x", self.expr("int", sc, d + 1)), ("y", self.expr("int", sc, d + 1))]
            if self.chance(0.3): entries.append(("z", ("int", 0)))
            self.rng.shuffle(entries)
            return ("map", entries)
        raise ValueError(shape)

    def call_args(self, sig, sc, d, wrong=False):
        n = sig.n_req + self.rng.randint(0, sig.n_opt)
        args = [self.arg_for(sig.params[i], sc, d) for i in range(n)]
        if sig.variadic and n == sig.n_req + sig.n_opt:
            args += [self.expr("int", sc, d + 1) for _ in range(self.rng.randint(0, 3))]
        if wrong:
            if sig.n_req > 0 and self.chance(0.5):
                args = args[:sig.n_req - 1]
            elif not sig.variadic:
                args = args + [("int", 0)] * (sig.n_req + sig.n_opt - len(args) + 1)
        return args

    def call_fn(self, sc, d):
        fns = sc.of_kind("fn_int")
        f = self.pick(fns)
        sig = f.keys
        args = self.call_args(sig, sc, d)
        r = self.rng.random()
        if r < 0.15 and args and all(sig.params[i] == "int" for i in range(min(len(args), len(sig.params)))) and len(args) <= len(sig.params):
            # packed call: f xs...
            k = self.rng.randint(0, len(args))
            packed = ("list", args[k:]) if self.chance(0.5) else ("tuple", args[k:])
            return ("call", ("var", f.name), args[:k] + [("spread", packed)])
        if r < 0.3 and args and len(args) <= 2:
            # a -> f b   (SG-A6: the piped value is a variable or literal, never a temporary; inside parentheses a
            # paren-free call takes one argument only, so nested pipes carry at most one extra argument)
            return ("pipe", args[0], ("var", f.name), args[1:])
        return ("call", ("var", f.name), args)

    def x_int(self, sc, d):
        if sc.of_kind("fn_int") and self.chance(0.25) and self.fn_nesting < 2:
            return self.call_fn(sc, d)
        objs = sc.of_kind("obj")
        if objs and self.chance(0.1):
            o = self.pick(objs)
            r = self.rng.random()
            if r < 0.4:
                return ("mcall", ("var", o.name), "get", [])
            if r < 0.6:
                # a -> obj.add : the piped call into a member keeps the container as self
                return ("pipe", ("int", self.rng.randint(-3, 9)), ("access", ("var", o.name), "add"), [])
            return ("mcall", ("var", o.name), "add", [self.expr("int", sc, d + 1)])
        return super().x_int(sc, d)

    def x_tuple(self, sc, d):
        gens = sc.of_kind("gen")
        if gens and self.chance(0.3):
            g = self.pick(gens)
            return ("mcall", ("call", ("var", g.name), [("int", self.rng.randint(0, 4))]), "to_tuple", [])
        return super().x_tuple(sc, d)

    def x_list(self, sc, d):
        gens = sc.of_kind("gen")
        if gens and self.chance(0.2):
            g = self.pick(gens)
            return ("mcall", ("call", ("var", g.name), [("int", self.rng.randint(0, 4))]), "to_list", [])
        return super().x_list(sc, d)

    def stmt(self, sc, d):
        r = self.rng.random()
        if self.fn_nesting == 0 and d == 0 and r < 0.3:
            k = self.rng.random()
            if k < 0.45: return self.def_function(sc, d)
            if k < 0.55: return self.def_recursive(sc, d)
            if k < 0.7: return self.def_factory(sc, d)
            if k < 0.8: return self.def_method_map(sc, d)
            return self.def_generator(sc, d)
        if self.fn_nesting == 1 and r < 0.06 and d <= 2:
            return self.def_function(sc, d)
        gens = sc.of_kind("gen")
        if gens and r < 0.4 and self.loop_depth < 2:
            return self.gen_consume(sc, d, self.pick(gens))
        fns = sc.of_kind("fn_int")
        if fns and r < 0.45:
            f = self.pick(fns)
            args = self.call_args(f.keys, sc, d)
            return [("print", [("call", ("var", f.name), args)])]
        return super().stmt(sc, d)

    def gen_consume(self, sc, d, g):
        call = ("call", ("var", g.name), [("int", self.rng.randint(0, 4))])
        r = self.rng.random()
        if r < 0.4:
            x = self.fresh("y")
            inner = Scope(sc); inner.vars = dict(sc.vars)
            inner.vars[x] = Var(x, "int", protected=True)
            self.loop_depth += 1
            self.loop_value_used.append(False)
            try:
                body = [("print", [("var", x)])] + (self.body(inner, d, 1) if self.chance(0.5) else [])
                if self.chance(0.3):
                    body.insert(0, ("if", [(("bin", ">", ("var", x), self.expr("int", sc, d + 1)), [("break", None)])], None))
            finally:
                self.loop_depth -= 1
                self.loop_value_used.pop()
            return [("for", [("var", x)], call, body)]
        if r < 0.7:
            it = self.fresh("it")
            sc.vars[it] = Var(it, "opaque", protected=True)
            out = [("assign", ("var", it), call)]
            for _ in range(self.rng.randint(1, 3)):
                tmp = self.fresh("o")
                sc.vars[tmp] = Var(tmp, "opaque", protected=True)
                out.append(("assign", ("var", tmp), ("mcall", ("var", it), "next", [])))
                out.append(("print", [("if", [(("var", tmp), [("mcall", ("var", tmp), "get", [])])], [("str", ["done"])])]))
            if self.chance(0.5):
                out.append(("print", [("mcall", ("var", it), "to_tuple", [])]))
            return out
        return [("print", [("mcall", call, "to_list", [])])]

    def program(self):
        out = super().program()
        return out


# =================================================================================================
# match profile (C03): pattern matching and unpacking
# =================================================================================================
class GenMatch(Gen):
    """Adds match expressions (literals, ids, wildcards, typed patterns, nested tuple patterns with leading/trailing
    rest, map patterns with `as`, `or` alternatives, guards, multi-subject matches) and unpacking assignments / for
    arguments over every iterable shape. Shape guards: SG-A2 (pattern names are fresh), SG-A4 (ellipsis patterns only
    against containers), SG-A5 (nested tuple patterns only in the last alternative), SG-A7 (map patterns only against
    maps, numbers, strings)."""
    def subject(self, sc, d):
        """Returns (expr, shape) - shape describes the value so that patterns can be aimed at it."""
        r = self.rng.random()
        if r < 0.25:
            v = self.rng.randint(-2, 5)
            return ("int", v), ("int", v)
        if r < 0.32:
            w = self.pick(["a", "b", "koto", ""])
            return ("str", [w]), ("str", w)
        if r < 0.38:
            return self.pick([(("null",), ("null",)), (("bool", True), ("bool", True)), (("bool", False), ("bool", False)), (("float", 1.5), ("float", 1.5))])
        if r < 0.75:
            n = self.rng.randint(0, 4)
            items, shapes = [], []
            for _ in range(n):
                if self.chance(0.2) and d < 2:
                    e, sh = self.subject(sc, d + 1)
                else:
                    v = self.rng.randint(0, 4); e, sh = ("int", v), ("int", v)
                items.append(e); shapes.append(sh)
            kind = "tuple" if self.chance(0.6) else "list"
            return (kind, items), (kind, shapes)
        keys = self.rng.sample(["a", "b", "c"], self.rng.randint(0, 3))
        vals = [self.rng.randint(0, 4) for _ in keys]
        return ("map", [(k, ("int", v)) for k, v in zip(keys, vals)]), ("map", dict(zip(keys, vals)))

    def pattern_for(self, shape, names, d=0, aim=True, allow_nested=True):
        """A pattern aimed at the shape (aim=True: likely to match; False: a random one)."""
        r = self.rng.random()
        k = shape[0]
        if r < 0.12:
            n = self.fresh("p"); names.append((n, self.kind_of_shape(shape))); return ("var", n)
        if r < 0.18: return ("ignore",)
        if r < 0.28:
            hint = {"int": "Number", "float": "Number", "str": "String", "null": "Null", "bool": "Bool", "tuple": "Tuple", "list": "List", "map": "Map"}[k]
            if not aim: hint = self.pick(["Number", "String", "Tuple", "List", "Map", "Bool", "Null", "Indexable", "Iterable"])
            if self.chance(0.5):
                n = self.fresh("p"); names.append((n, self.kind_of_shape(shape))); return ("var", n, hint)
            return ("ignore", hint)
        if k in ("int", "str", "null", "bool", "float"):
            if aim or self.chance(0.3):
                return ("plit", {"int": lambda: ("int", shape[1]), "str": lambda: ("str", [shape[1]]), "null": lambda: ("null",), "bool": lambda: ("bool", shape[1]), "float": lambda: ("float", shape[1])}[k]())
            return ("plit", self.pick([("int", self.rng.randint(-2, 5)), ("str", [self.pick(["a", "b"])]), ("null",), ("bool", True)]))
        if k in ("tuple", "list"):
            items = shape[1]
            if not allow_nested:
                n = self.fresh("p"); names.append((n, k)); return ("var", n)
            n_items = len(items)
            mode = self.rng.random()
            if mode < 0.55:
                size = n_items if (aim or self.chance(0.5)) else self.rng.randint(0, 4)
                if size == 0:
                    # SG-A8: `()` as a pattern matches null, not the empty tuple - use (...) for "any sequence" instead
                    return ("tpat", [("rest", None)])
                pats = []
                for i in range(size):
                    sh = items[i] if i < n_items else ("int", 0)
                    pats.append(self.pattern_for(sh, names, d + 1, aim and self.chance(0.85), allow_nested=d < 1))
                return ("tpat", pats)
            keep = self.rng.randint(0, min(2, n_items)) if aim else self.rng.randint(0, 3)
            restname = None
            if self.chance(0.6):
                restname = self.fresh("p"); names.append((restname, k))
            if self.chance(0.5):
                pats = [self.pattern_for(items[i] if i < n_items else ("int", 0), names, d + 1, aim, allow_nested=d < 1) for i in range(keep)] + [("rest", restname)]
            else:
                pats = [("rest", restname)] + [self.pattern_for(items[n_items - keep + i] if 0 <= n_items - keep + i < n_items else ("int", 0), names, d + 1, aim, allow_nested=d < 1) for i in range(keep)]
            return ("tpat", pats)
        if k == "map":
            keys = list(shape[1].keys())
            chosen = self.rng.sample(keys, self.rng.randint(0, len(keys))) if keys else []
            if not aim and self.chance(0.6):
                chosen = chosen + [self.pick(["a", "b", "c", "zz"])]
            chosen = list(dict.fromkeys(chosen))
            if not chosen:
                chosen = [self.pick(["a", "zz"])] if not aim else (keys[:1] or ["zz"])
            entries = []
            for key in chosen:
                if self.chance(0.25):
                    entries.append((key, "_"))      # `key as _`: presence is still required, nothing is bound
                    continue
                n = self.fresh("p"); names.append((n, "opaque")); entries.append((key, n))
            return ("mpat", entries)
        return ("ignore",)

    def kind_of_shape(self, shape):
        return {"int": "int", "float": "float", "str": "str", "null": "null", "bool": "bool", "tuple": "tuple", "list": "list", "map": "map"}[shape[0]]

    def shape_ok_for(self, pat, shape):
        """Shape guards SG-A4 / SG-A7 and the pinned sequence matching of strings/maps."""
        k = pat[0]
        if k == "tpat":
            if shape[0] not in ("tuple", "list"):
                # non-ellipsis tuple patterns fall through for scalars; strings / maps match element-wise (pinned) - avoided
                if any(x[0] == "rest" for x in pat[1]): return False
                if shape[0] in ("str", "map"): return False
                return True
            n = len(shape[1])
            pats = pat[1]
            rest_at = [i for i, x in enumerate(pats) if x[0] == "rest"]
            if rest_at:
                r = rest_at[0]
                before, after = pats[:r], pats[r + 1:]
                for q, sh in zip(before, shape[1]):
                    if not self.shape_ok_for(q, sh): return False
                for q, sh in zip(after, shape[1][max(0, n - len(after)):]):
                    if not self.shape_ok_for(q, sh): return False
                return True
            return all(self.shape_ok_for(q, sh) for q, sh in zip(pats, shape[1]))
        if k == "mpat":
            return shape[0] in ("map", "int", "float", "str")
        return True

    def match_expr(self, sc, d):
        n_subj = 1 if self.chance(0.8) else 2
        subj = [self.subject(sc, d) for _ in range(n_subj)]
        arms = []
        body_kind = self.pick(["int", "str", "pair"])
        def body_value(scope):
            if body_kind == "pair":
                # a multi-value arm body (printed with or without parentheses, inline or as a block)
                return ("tuple", [self.expr("str", scope, d + 2), self.expr("int", scope, d + 2)])
            return self.expr(body_kind, scope, d + 2)
        for a in range(self.rng.randint(1, 4)):
            alts = []
            names_all = None
            n_alts = 1 if self.chance(0.7) else self.rng.randint(2, 3)
            for ai in range(n_alts):
                last_alt = ai == n_alts - 1
                names = []
                alt = []
                ok = True
                for (e, sh) in subj:
                    # SG-A5: nested tuple patterns only in the last alternative; with several alternatives no bindings
                    p = self.pattern_for(sh, names, 0, aim=self.chance(0.55), allow_nested=last_alt)
                    if not self.shape_ok_for(p, sh): ok = False
                    alt.append(p)
                if not ok:
                    continue
                if n_alts > 1 and names:
                    alt = [self.strip_names(p) for p in alt]
                    names = []
                alts.append(alt)
                names_all = names
            if not alts:
                continue
            inner = Scope(sc); inner.vars = dict(sc.vars)
            if len(alts) == 1:
                for nm, kd in names_all or []:
                    inner.vars[nm] = Var(nm, kd if kd in KINDS else "opaque", protected=True)
            guard = None
            if self.chance(0.25):
                guard = self.expr("bool", inner, d + 2)
            body = []
            binds = [v for v in inner.vars.values() if v.name.startswith("p") and v.name not in sc.vars]
            if binds:
                body.append(("print", [("var", v.name) for v in binds[:3]]))
            body.append(self.maybe_trace(body_value(inner)) if body_kind != "pair" else body_value(inner))
            arms.append((alts, guard, body))
        if self.chance(0.5) or not arms:
            arms.append((None, None, [body_value(sc)]))
        self.trace_id += 1
        subjects = [("trace", self.trace_id + i * 1000, e) for i, (e, sh) in enumerate(subj)]
        return ("match", subjects, arms)

    def strip_names(self, p):
        k = p[0]
        if k == "var": return ("ignore", p[2]) if len(p) > 2 and p[2] else ("ignore",)
        if k == "tpat": return ("tpat", [self.strip_names(x) for x in p[1]])
        if k == "rest": return ("rest", None)
        if k == "mpat": return ("ignore",)
        return p

    def unpack_stmt(self, sc, d):
        """a, b, c = V  /  for a, b in Vs  over every iterable shape (too short, too long, generators excluded here)."""
        n_t = self.rng.randint(2, 3)
        targets = []
        names = []
        for _ in range(n_t):
            if self.chance(0.15):
                targets.append(("ignore",))
            else:
                n = self.fresh("u"); names.append(n); targets.append(("var", n))
        def source():
            r = self.rng.random()
            k = self.rng.randint(0, 4)
            items = [("int", self.rng.randint(0, 9)) for _ in range(k)]
            if r < 0.3: return ("tuple", items)
            if r < 0.55: return ("list", items)
            if r < 0.7: return ("range", ("int", 0), ("int", k), False)
            if r < 0.8: return ("str", [self.pick(["xy", "abc", "é日", "q", ""])])
            if r < 0.9: return ("map", [(key, ("int", i)) for i, key in enumerate(self.rng.sample(["a", "b", "c"], min(k, 3)))])
            return ("bare", items[:max(2, k)] if len(items) >= 2 else [("int", 1), ("int", 2)])
        out = []
        if self.chance(0.6):
            src = source()
            if src[0] == "bare":
                e = ("tuple", src[1], "bare")
            else:
                e = src
            out.append(("multi", targets, e))
            for n in names:
                sc.vars[n] = Var(n, "opaque", protected=True)
            out.append(("print", [("var", n) for n in names] or [("int", 0)]))
        else:
            rows = []
            for _ in range(self.rng.randint(0, 3)):
                s = source()
                if s[0] in ("bare", "range"):
                    s = ("tuple", s[1] if s[0] == "bare" else [("int", 1)])
                rows.append(s)
            inner = Scope(sc); inner.vars = dict(sc.vars)
            for n in names:
                inner.vars[n] = Var(n, "opaque", protected=True)
            self.loop_depth += 1; self.loop_value_used.append(False)
            try:
                body = [("print", [("var", n) for n in names] or [("int", 0)])]
            finally:
                self.loop_depth -= 1; self.loop_value_used.pop()
            out.append(("for", targets, ("list", rows) if self.chance(0.5) else ("tuple", rows), body))
        return out

    def for_ignored(self, sc, d):
        """for _ in SOURCE: the body runs once per element whatever the source yields (values or key / value pairs)."""
        cnt = self.fresh("cnt")
        sc.vars[cnt] = Var(cnt, "int", protected=True)
        k = self.rng.randint(0, 4)
        r = self.rng.random()
        if r < 0.4:
            src = ("map", [(key, ("int", i)) for i, key in enumerate(self.rng.sample(["a", "b", "c", "d"], k))])
        elif r < 0.55:
            src = ("list", [("int", i) for i in range(k)])
        elif r < 0.7:
            src = ("tuple", [("tuple", [("int", i), ("int", i)]) for i in range(k)])
        elif r < 0.85:
            src = ("range", ("int", 0), ("int", k), False)
        else:
            src = ("str", [self.pick(["xy", "abc", "é日", ""])])
        return [("assign", ("var", cnt), ("int", 0)),
                ("for", [("ignore",)], src, [("opassign", "+", ("var", cnt), ("int", 1))]),
                ("print", [("var", cnt)])]

    def stmt(self, sc, d):
        r = self.rng.random()
        if r < 0.05 and self.loop_depth == 0:
            return self.for_ignored(sc, d)
        if r < 0.35 and d <= 2:
            m = self.match_expr(sc, d)
            if self.chance(0.5):
                name = self.fresh()
                sc.vars[name] = Var(name, "opaque", protected=True)
                return [("assign", ("var", name), m), ("print", [("var", name)])]
            return [m]
        if r < 0.5:
            return self.unpack_stmt(sc, d)
        return super().stmt(sc, d)


# =================================================================================================
# err profile (C04): planted faults under nested try / catch / finally
# =================================================================================================
FAULT_KINDS = ("throw_str", "throw_obj", "index", "type", "assert", "args", "native", "interp", "assert_eq", "overload")

class GenErr(GenFn):
    """Skeletons of nested try / typed catches / finally across function calls, native callbacks (each / keep / fold),
    generators and string construction, with one or more planted faults. Shape guards: SG-B1 (no control flow leaves a
    try/catch that has a finally; catch bodies of such a try cannot fail), SG-B2 (call results inside try go to fresh
    names), SG-B5 (no map-pattern catch), SG-B6 (errors that cross a generator boundary are caught untyped and the
    handler does not inspect the value), SG-O1 (faulting operator expressions sit in a used position)."""
    def __init__(self, rng, **kw):
        super().__init__(rng, **kw)
        self.err_id = 0
        self.try_depth = 0
        self.crossing_generator = False

    def next_err(self):
        self.err_id += 1
        return self.err_id

    def fault(self, sc, d, kinds=None):
        """Statements that fail at run time. Returns (stmts, thrown_type) - thrown_type is the type name a typed catch
        would see ('String' for runtime errors and thrown strings, 'ErrN' for thrown objects)."""
        kind = self.pick(kinds or FAULT_KINDS)
        n = self.next_err()
        tmp = self.fresh("q")
        if kind == "throw_str":
            return [("throw", ("str", ["e%d" % n]))], "String", "e%d" % n
        if kind == "throw_obj":
            body = [("str", ["obj%d" % n])]
            obj = ("map", [("@type", ("str", ["Err%d" % (n % 3)])), ("@display", ("fn", [], None, body, False, [], None)), ("code", ("int", n))])
            return [("throw", obj)], "Err%d" % (n % 3), "obj%d" % n
        if kind == "index":
            return [("assign", ("var", tmp), ("index", ("list", [("int", 1)]), ("int", 5 + n % 3)))], "String", None
        if kind == "type":
            return [("assign", ("var", tmp), ("bin", self.pick(["+", "-", "*", "<"]), ("int", 1), self.pick([("null",), ("str", ["a"]), ("list", [])])))], "String", None
        if kind == "assert":
            return [("call", ("var", "assert"), [("bin", "==", ("int", 1), ("int", 2))])], "String", None
        if kind == "assert_eq":
            return [("call", ("var", "assert_eq"), [("int", n), ("int", n + 1)])], "String", None
        if kind == "args":
            f = self.fresh("h")
            return [("assign", ("var", f), ("fn", [(("var", "a"), None), (("var", "b"), None)], None, [("var", "a")], False, [], None)),
                    ("assign", ("var", tmp), ("call", ("var", f), [("int", 1)] if self.chance(0.5) else [("int", 1), ("int", 2), ("int", 3)]))], "String", None
        if kind == "overload":
            # the error is raised inside an operator overload: directly (== / negate) or behind a derived comparison (!= from @==)
            o = self.fresh("ov")
            inner = [("throw", ("str", ["e%d" % n]))]
            form = self.rng.randint(0, 2)
            key = "@negate" if form == 2 else "@=="
            params = [] if form == 2 else [(("var", "other"), None)]
            obj = ("map", [(key, ("fn", params, None, inner, False, [], None)), ("code", ("int", n))])
            use = ("neg", ("var", o)) if form == 2 else ("bin", "==" if form == 0 else "!=", ("var", o), ("int", 1))
            return [("assign", ("var", o), obj), ("assign", ("var", tmp), use)], "String", "e%d" % n
        if kind == "interp":
            return [("assign", ("var", tmp), ("str", ["pre", ("interp", ("bin", "+", ("int", 1), ("null",))), "post"]))], "String", None
        if kind == "native":
            x = self.fresh("x")
            inner_stmts, ty, shown = self.fault(sc, d, kinds=("throw_str", "throw_obj", "index", "type"))
            k = self.rng.randint(0, 2)
            cb_body = [("if", [(("bin", "==", ("var", x), ("int", k)), inner_stmts)], None, "block"), ("var", x)]
            cbname = self.fresh("cb")
            src = ("list", [("int", i) for i in range(3)])
            form = self.rng.random()
            params = [(("var", x), None)]
            if form < 0.4:
                call = ("mcall", ("mcall", src, "each", [("var", cbname)]), "to_list", [])
            elif form < 0.6:
                cb_body[-1] = ("bool", True)
                call = ("mcall", ("mcall", src, "keep", [("var", cbname)]), "to_tuple", [])
            elif form < 0.8:
                a = self.fresh("acc")
                params = [(("var", a), None), (("var", x), None)]
                cb_body[-1] = ("bin", "+", ("var", a), ("var", x))
                call = ("mcall", src, "fold", [("int", 0), ("var", cbname)])
            else:
                call = ("mcall", ("mcall", src, "each", [("var", cbname)]), "consume", [])
            cb = ("fn", params, None, cb_body, False, [], "block")
            return [("assign", ("var", cbname), cb), ("assign", ("var", tmp), call)], ty, shown
        raise ValueError(kind)

    def deep_fault(self, sc, d):
        """A fault planted `depth` calls down a chain of functions defined right here."""
        stmts, ty, shown = self.fault(sc, d)
        depth = self.rng.randint(1, 3)
        names = [self.fresh("dz") for _ in range(depth)]
        out = []
        body = [("print", [("str", ["in %s" % names[-1]])])] + stmts + [("int", 0)]
        out.append(("assign", ("var", names[-1]), ("fn", [], None, body, False, [], "block")))
        for i in range(depth - 2, -1, -1):
            body = [("print", [("str", ["in %s" % names[i]])]), ("call", ("var", names[i + 1]), []), ("print", [("str", ["unreachable"])]), ("int", 0)]
            out.append(("assign", ("var", names[i]), ("fn", [], None, body, False, [names[i + 1]], "block")))
        tmp = self.fresh("q")
        out.append(("assign", ("var", tmp), ("call", ("var", names[0]), [])))
        return out, ty, shown

    def gen_fault(self, sc, d):
        """A fault inside a generator body, consumed by for / to_list (errors crossing the generator boundary)."""
        stmts, ty, shown = self.fault(sc, d, kinds=("throw_str", "index", "type", "throw_obj"))
        g = self.fresh("gz")
        body = [("yield", ("int", 1))] + stmts + [("yield", ("int", 2))]
        out = [("assign", ("var", g), ("fn", [], None, body, True, [], "block"))]
        if self.chance(0.5):
            y = self.fresh("y")
            out.append(("for", [("var", y)], ("call", ("var", g), []), [("print", [("var", y)])]))
        else:
            tmp = self.fresh("q")
            out.append(("assign", ("var", tmp), ("mcall", ("call", ("var", g), []), "to_list", [])))
        return out, "GEN", shown

    def simple_stmts(self, sc, d, n=2):
        """Statements that cannot fail (prints and fresh assignments of literals / total arithmetic)."""
        out = []
        for _ in range(self.rng.randint(0, n)):
            if self.chance(0.5):
                self.trace_id += 1
                out.append(("trace", self.trace_id, ("int", self.rng.randint(0, 9))))
            else:
                name = self.fresh("s")
                sc.vars[name] = Var(name, "int", protected=True)
                out.append(("assign", ("var", name), ("bin", "+", ("int", self.rng.randint(0, 9)), ("int", self.rng.randint(0, 9)))))
        return out

    def try_stmt(self, sc, d, may_escape=True):
        """Returns (stmts, escapes) - escapes: True when an error may leave this try expression."""
        self.try_depth += 1
        try:
            state = self.fresh("st")
            pre = [("assign", ("var", state), ("list", []))]
            sc.vars[state] = Var(state, "list", protected=True)
            has_finally = self.chance(0.35)
            outer_sc = sc
            sc = Scope(outer_sc); sc.vars = dict(outer_sc.vars)   # names first assigned inside the try are not definitely assigned after it
            body = [("mcall", ("var", state), "push", [("int", 1)])] + self.simple_stmts(sc, d)
            thrown = None
            r = self.rng.random()
            if r < 0.75:
                k = self.rng.random()
                if k < 0.45:
                    stmts, ty, shown = self.fault(sc, d)
                elif k < 0.75:
                    stmts, ty, shown = self.deep_fault(sc, d)
                elif k < 0.9 and d < 2 and self.try_depth < 3:
                    # a nested try whose error escapes (typed catches that do not accept it / rethrow in catch)
                    stmts, esc = self.try_stmt(sc, d + 1)
                    ty, shown = (esc if esc else (None, None))
                else:
                    stmts, ty, shown = self.gen_fault(sc, d)
                body += stmts
                if ty is not None:
                    thrown = (ty, shown)
                body += [("mcall", ("var", state), "push", [("int", 2)])]
            body += self.simple_stmts(sc, d, 1)
            body.append(("str", ["try-value"]))
            catches = []
            accepted = False
            crossing = thrown is not None and thrown[0] == "GEN"
            if not crossing:
                for _ in range(self.rng.randint(0, 2)):
                    hint = self.pick(["String", "Err0", "Err1", "Err2", "Number", "Map"])
                    e = self.fresh("e")
                    cbody = [("print", [("str", ["catch %s" % hint]), ("call", ("var", "type"), [("var", e)])])]
                    if thrown and thrown[1] is not None and hint == thrown[0]:
                        cbody.append(("print", [("var", e)]))
                    if hint.startswith("Err"):
                        cbody.append(("print", [("access", ("var", e), "code")]))
                    cbody.append(("str", ["caught-%s" % hint]))
                    catches.append((("var", e), hint, cbody))
            e = self.fresh("e")
            last_body = [("print", [("str", ["catch any"])])]
            if thrown and not crossing:
                last_body.append(("print", [("call", ("var", "type"), [("var", e)])]))
                if thrown[1] is not None and not any(h == thrown[0] for (_, h, _) in catches):
                    last_body.append(("print", [("var", e)]))
            escapes = None
            if not has_finally and may_escape and thrown and self.chance(0.3):
                # the handler fails again: the new error leaves this try
                n = self.next_err()
                last_body.append(("throw", ("str", ["re%d" % n])))
                escapes = ("String", "re%d" % n)
            else:
                last_body.append(("str", ["caught-any"]))
            catches.append((("var", e) if self.chance(0.8) or len(last_body) > 2 else None, None, last_body))
            fin = None
            if has_finally:
                fin = [("mcall", ("var", state), "push", [("int", 3)]), ("print", [("str", ["finally"])]), ("str", ["finally-value"])]
            res = self.fresh("tv")
            sc = outer_sc
            sc.vars[res] = Var(res, "str", protected=True)
            node = ("try", body, catches, fin)
            out = pre + [("assign", ("var", res), node), ("print", [("var", res), ("var", state)])]
            if escapes and any(h == "String" for (_, h, _) in catches[:-1]) and thrown and thrown[0] == "String":
                # a typed String catch took it first: nothing escapes
                escapes = None
            if escapes and thrown and any(h == thrown[0] for (_, h, _) in catches[:-1]):
                escapes = None
            return out, escapes
        finally:
            self.try_depth -= 1

    def loop_try_exit(self, sc, d):
        """break / continue leave a try block (or its catch block) inside a loop; afterwards an error is thrown and caught
        in the same function: the catch points of the abandoned try blocks must be gone."""
        st, i, tv, e, e2, tv2 = self.fresh("st"), self.fresh("i"), self.fresh("tv"), self.fresh("e"), self.fresh("e"), self.fresh("tv")
        for nme, kind in ((st, "list"), (tv, "str"), (tv2, "str")):
            sc.vars[nme] = Var(nme, kind, protected=True)
        n = self.rng.randint(2, 5)
        pick = lambda: self.rng.randint(0, n)
        def exit_stmt():
            return ("continue",) if self.chance(0.5) else ("break", None)
        body = [("mcall", ("var", st), "push", [("var", i)])]
        if self.chance(0.8):
            body.append(("if", [(("bin", "==", ("var", i), ("int", pick())), [exit_stmt()])], None))
        nested = self.chance(0.3)
        if self.chance(0.7):
            body.append(("if", [(("bin", "==", ("var", i), ("int", pick())), [("throw", ("str", ["e%d" % self.next_err()]))])], None))
        if self.chance(0.5):
            body.append(("if", [(("bin", "==", ("var", i), ("int", pick())), [exit_stmt()])], None))
        body.append(("str", ["try-value"]))
        cbody = [("print", [("str", ["loop catch"]), ("var", e)])]
        if self.chance(0.5):
            cbody.append(("if", [(("bin", "==", ("var", i), ("int", pick())), [exit_stmt()])], None))
        cbody.append(("str", ["caught"]))
        node = ("try", body, [(("var", e), None, cbody)], None)
        if nested:
            e3 = self.fresh("e")
            node = ("try", [("assign", ("var", tv), node), ("var", tv)], [(("var", e3), None, [("print", [("str", ["outer loop catch"]), ("var", e3)]), ("str", ["caught-outer"])])], None)
        loop_body = [("assign", ("var", tv), node), ("print", [("var", tv), ("var", i)])]
        if self.chance(0.4):
            # an error in a later iteration *outside* of the try: nothing in the loop may catch it
            loop_body.append(("if", [(("bin", "==", ("var", i), ("int", n + 5)), [("throw", ("str", ["never"]))])], None))
        out = [("assign", ("var", st), ("list", [])), ("assign", ("var", tv), ("str", ["unset"])),
               ("for", [("var", i)], ("range", ("int", 0), ("int", n), False), loop_body),
               ("assign", ("var", tv2), ("try", [("throw", ("str", ["after%d" % self.next_err()]))], [(("var", e2), None, [("print", [("str", ["after catch"]), ("var", e2)]), ("str", ["ok"])])], None)),
               ("print", [("var", tv2), ("var", st)])]
        return out

    def stmt(self, sc, d):
        r = self.rng.random()
        if r < 0.08 and d <= 1 and self.loop_depth == 0:
            return self.loop_try_exit(sc, d)
        if r < 0.4 and d <= 1:
            out, esc = self.try_stmt(sc, d)
            return out
        if r < 0.43 and d == 0:
            # an uncaught fault ends the program
            stmts, ty, shown = self.fault(sc, d, kinds=("throw_str", "throw_obj", "index", "assert", "type"))
            return stmts
        return Gen.stmt(self, sc, d)
