//! Structural checker for compiled chunks (DESIGN.md 3.4.3)
//!
//! Uses only the public decoder (`InstructionReader`), never assumptions about which opcodes a
//! construct compiles to.

use koto_bytecode::{Chunk, Instruction, InstructionReader};
use koto_parser::{Constant, ConstantIndex};
use koto_runtime::Ptr;
use std::collections::{BTreeMap, BTreeSet, HashMap};

#[derive(Default, Debug, Clone)]
pub struct ChunkReport {
    /// (rule id, detail)
    pub faults: Vec<(String, String)>,
    pub bodies: usize,
    pub instructions: usize,
    pub boundaries: BTreeSet<usize>,
}

#[derive(Clone, Copy, PartialEq, Eq, Debug)]
enum CK {
    Str,
    F64,
    I64,
}

struct Decoded {
    start: usize,
    end: usize,
    instruction: Instruction,
}

#[derive(Default)]
struct Info {
    regs: Vec<u8>,
    // register ranges (start, count)
    ranges: Vec<(u8, u8)>,
    consts: Vec<(ConstantIndex, CK)>,
    // forward jump offsets (relative to the end of the instruction)
    fwd: Vec<u32>,
    back: Option<u32>,
    // true when execution can continue with the following instruction
    falls_through: bool,
    terminator: bool,
    seq: i32,
    string: i32,
    tries: i32,
    // a forward edge that is an exceptional edge (TryStart -> catch)
    catch_edge: Option<u32>,
}

fn analyze(i: &Instruction) -> Info {
    use Instruction::*;
    let mut x = Info {
        falls_through: true,
        ..Default::default()
    };
    match i {
        Error { .. } => {}
        NewFrame { .. } => {}
        Copy { target, source } => x.regs.extend([*target, *source]),
        SetNull { register } | SetBool { register, .. } | SetNumber { register, .. } => {
            x.regs.push(*register)
        }
        LoadFloat { register, constant } => {
            x.regs.push(*register);
            x.consts.push((*constant, CK::F64));
        }
        LoadInt { register, constant } => {
            x.regs.push(*register);
            x.consts.push((*constant, CK::I64));
        }
        LoadString { register, constant } | LoadNonLocal { register, constant } => {
            x.regs.push(*register);
            x.consts.push((*constant, CK::Str));
        }
        ExportValue { key, value } => x.regs.extend([*key, *value]),
        ExportEntry { entry } => x.regs.push(*entry),
        Import { register } | ImportAll { register } => x.regs.push(*register),
        MakeTempTuple {
            register,
            start,
            count,
        } => {
            x.regs.push(*register);
            x.ranges.push((*start, *count));
        }
        TempTupleToTuple { register, source } => x.regs.extend([*register, *source]),
        MakeMap { register, .. } => x.regs.push(*register),
        SequenceStart { .. } => x.seq = 1,
        SequencePush { value } => x.regs.push(*value),
        SequencePushN { start, count } => x.ranges.push((*start, *count)),
        SequenceToList { register } | SequenceToTuple { register } => {
            x.regs.push(*register);
            x.seq = -1;
        }
        Range {
            register,
            start,
            end,
        }
        | RangeInclusive {
            register,
            start,
            end,
        } => x.regs.extend([*register, *start, *end]),
        RangeTo { register, end } | RangeToInclusive { register, end } => {
            x.regs.extend([*register, *end])
        }
        RangeFrom { register, start } => x.regs.extend([*register, *start]),
        RangeFull { register } => x.regs.push(*register),
        MakeIterator { register, iterable } => x.regs.extend([*register, *iterable]),
        Function { register, .. } => x.regs.push(*register),
        Capture {
            function, source, ..
        } => x.regs.extend([*function, *source]),
        Negate { register, value } | Not { register, value } => {
            x.regs.extend([*register, *value])
        }
        Add { register, lhs, rhs }
        | Subtract { register, lhs, rhs }
        | Multiply { register, lhs, rhs }
        | Divide { register, lhs, rhs }
        | Remainder { register, lhs, rhs }
        | Power { register, lhs, rhs }
        | Less { register, lhs, rhs }
        | LessOrEqual { register, lhs, rhs }
        | Greater { register, lhs, rhs }
        | GreaterOrEqual { register, lhs, rhs }
        | Equal { register, lhs, rhs }
        | NotEqual { register, lhs, rhs } => x.regs.extend([*register, *lhs, *rhs]),
        AddAssign { lhs, rhs }
        | SubtractAssign { lhs, rhs }
        | MultiplyAssign { lhs, rhs }
        | DivideAssign { lhs, rhs }
        | RemainderAssign { lhs, rhs }
        | PowerAssign { lhs, rhs } => x.regs.extend([*lhs, *rhs]),
        Jump { offset } => {
            x.fwd.push(*offset as u32);
            x.falls_through = false;
            x.terminator = true;
        }
        JumpBack { offset } => {
            x.back = Some(*offset as u32);
            x.falls_through = false;
            x.terminator = true;
        }
        JumpIfTrue { register, offset }
        | JumpIfFalse { register, offset }
        | JumpIfNull { register, offset } => {
            x.regs.push(*register);
            x.fwd.push(*offset as u32);
        }
        Call {
            result,
            function,
            frame_base,
            ..
        } => x.regs.extend([*result, *function, *frame_base]),
        CallInstance {
            result,
            function,
            instance,
            frame_base,
            ..
        } => x.regs.extend([*result, *function, *instance, *frame_base]),
        Return { register } | Throw { register } => {
            x.regs.push(*register);
            x.falls_through = false;
            x.terminator = true;
        }
        Yield { register } => x.regs.push(*register),
        Size { register, value } => x.regs.extend([*register, *value]),
        IterNext {
            result,
            iterator,
            jump_offset,
            ..
        } => {
            if let Some(r) = result {
                x.regs.push(*r);
            }
            x.regs.push(*iterator);
            x.fwd.push(*jump_offset as u32);
        }
        TempIndex {
            register, value, ..
        }
        | SliceFrom {
            register, value, ..
        }
        | SliceTo {
            register, value, ..
        } => x.regs.extend([*register, *value]),
        Index {
            register,
            value,
            index,
        } => x.regs.extend([*register, *value, *index]),
        IndexMut {
            register,
            index,
            value,
        } => x.regs.extend([*register, *index, *value]),
        MetaInsert {
            register, value, ..
        } => x.regs.extend([*register, *value]),
        MetaInsertNamed {
            register,
            value,
            name,
            ..
        } => x.regs.extend([*register, *value, *name]),
        MetaExport { value, .. } => x.regs.push(*value),
        MetaExportNamed { name, value, .. } => x.regs.extend([*name, *value]),
        Access {
            register,
            value,
            key,
        } => {
            x.regs.extend([*register, *value]);
            x.consts.push((*key, CK::Str));
        }
        TryAccess {
            register,
            value,
            key,
            jump_offset,
        } => {
            x.regs.extend([*register, *value]);
            x.consts.push((*key, CK::Str));
            x.fwd.push(*jump_offset as u32);
        }
        AccessString {
            register,
            value,
            key,
        } => x.regs.extend([*register, *value, *key]),
        TryAccessString {
            register,
            value,
            key,
            jump_offset,
        } => {
            x.regs.extend([*register, *value, *key]);
            x.fwd.push(*jump_offset as u32);
        }
        AccessAssign {
            register,
            key,
            value,
        } => x.regs.extend([*register, *key, *value]),
        TryStart {
            arg_register,
            catch_offset,
        } => {
            x.regs.push(*arg_register);
            x.catch_edge = Some(*catch_offset as u32);
            x.tries = 1;
        }
        TryEnd => x.tries = -1,
        Debug { register, constant } => {
            x.regs.push(*register);
            x.consts.push((*constant, CK::Str));
        }
        CheckSizeEqual { register, .. } | CheckSizeMin { register, .. } => x.regs.push(*register),
        AssertType {
            value, type_string, ..
        } => {
            x.regs.push(*value);
            x.consts.push((*type_string, CK::Str));
        }
        CheckType {
            value,
            type_string,
            jump_offset,
            ..
        } => {
            x.regs.push(*value);
            x.consts.push((*type_string, CK::Str));
            x.fwd.push(*jump_offset as u32);
        }
        StringStart { .. } => x.string = 1,
        StringPush { value, .. } => x.regs.push(*value),
        StringFinish { register } => {
            x.regs.push(*register);
            x.string = -1;
        }
        #[allow(unreachable_patterns)]
        _ => {}
    }
    x
}

fn variant_name(i: &Instruction) -> String {
    let d = format!("{i:?}");
    d.split(|c: char| !c.is_alphanumeric())
        .next()
        .unwrap_or("")
        .to_string()
}

/// Checks the chunk, returning the faults that were found
pub fn check_chunk(chunk: &Ptr<Chunk>) -> ChunkReport {
    let mut report = ChunkReport::default();
    let len = chunk.bytes.len();

    // Pass 1: linear sweep
    let mut decoded: Vec<Decoded> = Vec::new();
    let mut reader = InstructionReader::new(chunk.clone());
    loop {
        let start = reader.ip;
        if start >= len {
            break;
        }
        match reader.next() {
            Some(instruction) => {
                let end = reader.ip;
                if end <= start {
                    report.faults.push((
                        "decode-no-progress".into(),
                        format!("reader did not advance at ip {start}"),
                    ));
                    break;
                }
                let is_error = matches!(instruction, Instruction::Error { .. });
                if let Instruction::Error { message } = &instruction {
                    report
                        .faults
                        .push(("decode-error".into(), format!("ip {start}: {message}")));
                }
                decoded.push(Decoded {
                    start,
                    end,
                    instruction,
                });
                if is_error {
                    break;
                }
            }
            None => {
                report.faults.push((
                    "decode-truncated".into(),
                    format!("reader ended at ip {start} of {len}"),
                ));
                break;
            }
        }
    }
    report.instructions = decoded.len();
    for d in &decoded {
        report.boundaries.insert(d.start);
    }
    if !report.faults.is_empty() {
        return report;
    }

    // Pass 2: split into bodies. body ranges: (start, end) byte ranges, nested bodies are
    // excluded from their parents.
    let index_of: HashMap<usize, usize> = decoded
        .iter()
        .enumerate()
        .map(|(i, d)| (d.start, i))
        .collect();

    // Collect function body ranges
    let mut body_ranges: Vec<(usize, usize)> = vec![(0, len)];
    for d in &decoded {
        if let Instruction::Function { size, .. } = &d.instruction {
            let b_start = d.end;
            let b_end = d.end + *size as usize;
            if b_end > len || !(index_of.contains_key(&b_end) || b_end == len) {
                report.faults.push((
                    "function-size".into(),
                    format!(
                        "function at ip {} has body end {b_end} which is not an instruction boundary (len {len})",
                        d.start
                    ),
                ));
                return report;
            }
            if *size == 0 {
                report.faults.push((
                    "function-size".into(),
                    format!("function at ip {} has an empty body", d.start),
                ));
                return report;
            }
            body_ranges.push((b_start, b_end));
        }
    }
    // For each instruction find the innermost body: bodies are properly nested, so sort by start
    // and use a stack.
    body_ranges.sort_by(|a, b| a.0.cmp(&b.0).then(b.1.cmp(&a.1)));
    let mut owner: Vec<usize> = vec![0; decoded.len()];
    {
        let mut stack: Vec<usize> = Vec::new();
        let mut next_body = 0;
        for (i, d) in decoded.iter().enumerate() {
            while let Some(&top) = stack.last() {
                if d.start >= body_ranges[top].1 {
                    stack.pop();
                } else {
                    break;
                }
            }
            while next_body < body_ranges.len() && body_ranges[next_body].0 <= d.start {
                if body_ranges[next_body].0 == d.start || next_body == 0 {
                    stack.push(next_body);
                } else {
                    // a body that starts in the middle of an instruction
                    report.faults.push((
                        "function-size".into(),
                        format!("body start {} is not a boundary", body_ranges[next_body].0),
                    ));
                    return report;
                }
                next_body += 1;
            }
            // check nesting
            if let Some(&top) = stack.last() {
                owner[i] = top;
                if d.end > body_ranges[top].1 {
                    report.faults.push((
                        "function-size".into(),
                        format!("instruction at {} straddles the end of its body", d.start),
                    ));
                    return report;
                }
            }
        }
    }
    report.bodies = body_ranges.len();

    let mut per_body: BTreeMap<usize, Vec<usize>> = BTreeMap::new();
    for (i, o) in owner.iter().enumerate() {
        per_body.entry(*o).or_default().push(i);
    }

    let n_constants = chunk.constants.size();

    for (body, members) in per_body.iter() {
        let (b_start, b_end) = body_ranges[*body];
        let first = &decoded[members[0]];
        let register_count = match &first.instruction {
            Instruction::NewFrame { register_count } if first.start == b_start => {
                *register_count as usize
            }
            other => {
                report.faults.push((
                    "body-start".into(),
                    format!(
                        "body at {b_start} starts with {} instead of NewFrame",
                        variant_name(other)
                    ),
                ));
                continue;
            }
        };
        let member_set: BTreeSet<usize> = members.iter().map(|i| decoded[*i].start).collect();
        let last = &decoded[*members.last().unwrap()];
        let last_info = analyze(&last.instruction);
        if !last_info.terminator {
            report.faults.push((
                "body-end".into(),
                format!(
                    "body at {b_start} ends with {} at ip {}",
                    variant_name(&last.instruction),
                    last.start
                ),
            ));
        }

        // last Function instruction per register, for the Capture rule
        let mut function_in_register: HashMap<u8, (u8, u8)> = HashMap::new();

        // successor lists for the CFG pass
        let mut succs: HashMap<usize, Vec<(usize, bool)>> = HashMap::new(); // (target, is_catch_edge)
        let mut deltas: HashMap<usize, (i32, i32, i32)> = HashMap::new();
        let mut is_return: HashMap<usize, bool> = HashMap::new();

        for (k, &mi) in members.iter().enumerate() {
            let d = &decoded[mi];
            let info = analyze(&d.instruction);
            let name = variant_name(&d.instruction);

            if k > 0 && matches!(d.instruction, Instruction::NewFrame { .. }) {
                report.faults.push((
                    "newframe-inside-body".into(),
                    format!("ip {}", d.start),
                ));
            }

            for r in &info.regs {
                if *r as usize >= register_count {
                    report.faults.push((
                        "register-range".into(),
                        format!(
                            "{name} at ip {} uses register {r}, frame has {register_count}",
                            d.start
                        ),
                    ));
                }
            }
            for (s, c) in &info.ranges {
                if *c > 0 && *s as usize + *c as usize > register_count {
                    report.faults.push((
                        "register-range".into(),
                        format!(
                            "{name} at ip {} uses registers {s}..{}, frame has {register_count}",
                            d.start,
                            *s as usize + *c as usize
                        ),
                    ));
                }
            }
            match &d.instruction {
                Instruction::Call {
                    frame_base,
                    arg_count,
                    ..
                }
                | Instruction::CallInstance {
                    frame_base,
                    arg_count,
                    ..
                } => {
                    if *frame_base as usize + *arg_count as usize >= register_count {
                        report.faults.push((
                            "register-range".into(),
                            format!(
                                "{name} at ip {} passes arguments in registers up to {}, frame has {register_count}",
                                d.start,
                                *frame_base as usize + *arg_count as usize
                            ),
                        ));
                    }
                }
                Instruction::Function {
                    register,
                    optional_arg_count,
                    capture_count,
                    ..
                } => {
                    function_in_register.insert(*register, (*optional_arg_count, *capture_count));
                }
                Instruction::Capture {
                    function, target, ..
                } => match function_in_register.get(function) {
                    Some((optional, captures)) => {
                        if *target as usize >= *optional as usize + *captures as usize {
                            report.faults.push((
                                "capture-range".into(),
                                format!(
                                    "Capture at ip {} targets slot {target}, function has {optional}+{captures}",
                                    d.start
                                ),
                            ));
                        }
                    }
                    None => {
                        report.faults.push((
                            "capture-range".into(),
                            format!(
                                "Capture at ip {} refers to register {function} which holds no function",
                                d.start
                            ),
                        ));
                    }
                },
                _ => {}
            }
            for (c, kind) in &info.consts {
                let index = usize::from(*c);
                let actual = chunk.constants.get(index);
                let ok = match (&actual, kind) {
                    (Some(Constant::Str(_)), CK::Str) => true,
                    (Some(Constant::F64(_)), CK::F64) => true,
                    (Some(Constant::I64(_)), CK::I64) => true,
                    _ => false,
                };
                if !ok {
                    report.faults.push((
                        "constant".into(),
                        format!(
                            "{name} at ip {} refers to constant {index} as {kind:?} (pool size {n_constants}, found {})",
                            d.start,
                            match actual {
                                Some(Constant::Str(_)) => "Str",
                                Some(Constant::F64(_)) => "F64",
                                Some(Constant::I64(_)) => "I64",
                                None => "nothing",
                            }
                        ),
                    ));
                }
            }

            // jump targets
            let mut out: Vec<(usize, bool)> = Vec::new();
            let mut check_target = |target: Option<usize>, what: &str, faults: &mut Vec<(String, String)>| -> Option<usize> {
                match target {
                    Some(t) if t >= b_start && t < b_end && member_set.contains(&t) => Some(t),
                    Some(t) => {
                        faults.push((
                            "jump-target".into(),
                            format!(
                                "{name} at ip {} {what} target {t} is not an instruction boundary of its body [{b_start}, {b_end})",
                                d.start
                            ),
                        ));
                        None
                    }
                    None => {
                        faults.push((
                            "jump-target".into(),
                            format!("{name} at ip {} {what} target underflows", d.start),
                        ));
                        None
                    }
                }
            };
            for off in &info.fwd {
                if let Some(t) = check_target(Some(d.end + *off as usize), "forward", &mut report.faults) {
                    out.push((t, false));
                }
            }
            if let Some(off) = info.back {
                if let Some(t) = check_target(d.end.checked_sub(off as usize), "backward", &mut report.faults) {
                    out.push((t, false));
                }
            }
            if let Some(off) = info.catch_edge {
                if let Some(t) = check_target(Some(d.end + off as usize), "catch", &mut report.faults) {
                    out.push((t, true));
                }
            }
            if info.falls_through {
                // the next instruction of this body (skipping nested function bodies)
                let next_start = match &d.instruction {
                    Instruction::Function { size, .. } => d.end + *size as usize,
                    _ => d.end,
                };
                if member_set.contains(&next_start) {
                    out.push((next_start, false));
                } else if next_start < b_end {
                    report.faults.push((
                        "fallthrough".into(),
                        format!("{name} at ip {} falls through to {next_start} which is not in its body", d.start),
                    ));
                }
                // falling off the end of the body is reported by body-end
            }
            succs.insert(d.start, out);
            deltas.insert(d.start, (info.seq, info.string, info.tries));
            is_return.insert(
                d.start,
                matches!(d.instruction, Instruction::Return { .. }),
            );
        }

        // Pass 3: CFG depth propagation
        let mut state: HashMap<usize, (i32, i32, i32)> = HashMap::new();
        let mut work: Vec<usize> = vec![b_start];
        state.insert(b_start, (0, 0, 0));
        let mut reported: BTreeSet<(String, usize)> = BTreeSet::new();
        while let Some(ip) = work.pop() {
            let (s, st, t) = state[&ip];
            let (ds, dst, dt) = deltas[&ip];
            let after = (s + ds, st + dst, t + dt);
            if after.0 < 0 || after.1 < 0 || after.2 < 0 {
                if reported.insert(("builder-underflow".into(), ip)) {
                    report.faults.push((
                        "builder-underflow".into(),
                        format!("ip {ip}: depths (seq,str,try) become {after:?}"),
                    ));
                }
                continue;
            }
            if is_return[&ip] && (s != 0 || st != 0) {
                if reported.insert(("builder-balance-return".into(), ip)) {
                    report.faults.push((
                        "builder-balance-return".into(),
                        format!("Return at ip {ip} with open builders (seq {s}, str {st})"),
                    ));
                }
            }
            for (target, is_catch) in &succs[&ip] {
                // the catch edge carries the depths of TryStart (with the catch point registered)
                let next = if *is_catch { after } else { after };
                match state.get(target) {
                    None => {
                        state.insert(*target, next);
                        work.push(*target);
                    }
                    Some(existing) if *existing != next => {
                        let rule = if existing.2 != next.2 && existing.0 == next.0 && existing.1 == next.1 {
                            "try-balance-join"
                        } else {
                            "builder-balance-join"
                        };
                        if reported.insert((rule.into(), *target)) {
                            report.faults.push((
                                rule.into(),
                                format!(
                                    "ip {target} is reached with depths {existing:?} and {next:?} (from ip {ip})"
                                ),
                            ));
                        }
                    }
                    _ => {}
                }
            }
        }
    }

    report
}
