"""C04 errors unwind to the right handler; finally runs. Fault enumeration: generated skeletons of
nested try / typed catches / finally across function calls, native callbacks (each / keep / fold /
consume), generators and string construction, each with planted faults of nine kinds; oracles:
reference model (innermost accepting handler, typed catches in order, finally once and supplying
the value, state at the throw point preserved, uncaught error carries the thrown message), context
relation, and the residue / VM monitors as verdicts (a failed or caught error must leave no
execution state behind)."""
import os
from .common import *
from .modelrun import *
from . import c01
from kv.pool import fan_out

PID = "C04"

ADAPT = {"skip1": "{S}.skip(1)", "skip3": "{S}.skip(3)", "step2": "{S}.step(2)", "step3": "{S}.step(3)", "enumerate": "{S}.enumerate()", "chain_recv": "{S}.chain([9])", "chain_arg": "[9].chain({S})",
         "zip_recv": "{S}.zip([7, 8, 9, 10])", "zip_arg": "[7, 8, 9, 10].zip({S})", "windows2": "{S}.windows(2)", "chunks2": "{S}.chunks(2)", "flatten": "{S}.each(|v| (v, v)).flatten()",
         "intersperse": "{S}.intersperse(0)", "intersperse_fn": "{S}.intersperse(|| 0)", "cycle_take": "{S}.cycle().take(9)", "reversed": "{S}.reversed()", "peekable": "{S}.peekable()", "keep": "{S}.keep(|v| true)",
         "each": "{S}.each(|v| v)", "take9": "{S}.take(9)", "take_while": "{S}.take(|v| true)", "skip_then_step": "{S}.skip(1).step(2)", "iter": "{S}.iter()", "skip_back": "{S}.skip(2).reversed()"}
CONS = {"to_list": "{P}.to_list()", "to_tuple": "{P}.to_tuple()", "count": "{P}.count()", "last": "{P}.last()", "consume": "{P}.consume()", "fold": "{P}.fold(0, |a, v| 0)", "for": None,
        "to_string": "{P}.to_string()", "any": "{P}.any(|v| false)", "all": "{P}.all(|v| true)", "find": "{P}.find(|v| false)", "position": "{P}.position(|v| false)", "min": "{P}.each(|v| 1).min()",
        "to_map": "{P}.to_map()", "sum": "{P}.each(|v| 1).sum()", "min_max": "{P}.each(|v| 1).min_max()"}
SOURCES = {"each_callback": ("cb = |x| if x == {K} then throw 'boom' else x", "[0, 1, 2, 3].each(cb)"),
           "generator": ("g = ||\n  for x in 0..4\n    if x == {K}\n      throw 'boom'\n    yield x", "g()"),
           "object_next": ("o = {n: -1, @next: ||\n  self.n += 1\n  if self.n == {K}\n    throw 'boom'\n  if self.n < 4 then self.n else null\n}", None)}

def _adaptor_shard(shard, n, tier, seed):
    """An error raised while producing element K of a fully drained pipeline must reach the enclosing handler, whatever
    adaptor sits between the failing stage and the consumer (receiver side and argument side)."""
    w = Worker()
    rep = {"violations": [], "evaluations": 0, "cells": 0, "passenger": []}
    idx = 0
    for sname, (setup, expr) in sorted(SOURCES.items()):
        if expr is None:
            continue
        for an, a in sorted(ADAPT.items()):
            for cn, c in sorted(CONS.items()):
                for k in (0, 1, 2, 3):
                    idx += 1
                    if idx % n != shard:
                        continue
                    if sname == "generator" and an in ("reversed", "skip_back"):
                        continue      # generators are not reversible: the error is the adaptor's own
                    pipe = a.replace("{S}", expr)
                    use = "for v in %s\n    null\n  'done'" % pipe if c is None else c.replace("{P}", "(%s)" % pipe)
                    for depth in (0, 1):
                        if depth == 0:
                            text = "%s\nr = try\n  %s\ncatch e\n  'caught {e}'\nprint r\n" % (setup.replace("{K}", str(k)), use)
                        else:
                            text = "%s\nf = ||\n  %s\nr = try\n  f()\ncatch e\n  'caught {e}'\nprint r\n" % (setup.replace("{K}", str(k)), use.replace("\n", "\n"))
                        r = w.exec(text, timeout=20, limit_ms=3000)
                        rep["evaluations"] += 1; rep["cells"] += 1
                        c01._passengers(rep, r, text)
                        out = r.get("stdout", "").strip() if r.get("outcome") == "ok" else "<%s: %s>" % (r.get("outcome"), str(r.get("error"))[:60])
                        if out != "caught boom":
                            rep["violations"].append({"key": "adaptor-fault:%s:%s:%s:%d:%d" % (sname, an, cn, k, depth), "summary": "an error thrown while producing element %d (%s) did not reach the handler through %s / %s: got %s" % (k, sname, an, cn, out[:80]),
                                                      "case": {"src": text, "real": out}})
    w.close()
    return rep

# values under construction around a caught error: a function that recovers from an error is called while strings and
# sequences are being built by its caller (and throws while it builds strings / sequences itself)
BUILD_CONTEXTS = ["X", "'a{X}b'", "[1, X, 3]", "(1, X)", "{k: X}", "'p{[1, X]}q'", "['s{X}t', 2]", "'o{\"i{X}j\"}u'", "g_(1, X)", "'{X}{X}'", "[X, 'm{X}n', (X,)]",
                  "'a{'b{'c{X}'}'}'" if False else "'a{[1, 'c{X}']}z'", "[[['d{X}']]]", "(1, 2, 'x{(3, X)}y', [4])", "'{1}{2}{X}{3}'", "[1, 2, 3, 4, X]", "'s{g_(X, 't{X}')}'"]
THROWING_BODIES = ["throw 'x'", "'s{throw 'x'}'", "[1, throw 'x']", "'a{[1, (2, throw 'x')]}'", "[1, 'b{throw 'x'}']", "h_()", "'c{h_()}'", "[h_(), 1]", "('q{[1, h_()]}',)", "[1, 2][5]", "'{[1][3]}'"]
def _builder_shard(shard, n, tier, seed):
    w = Worker()
    rep = {"violations": [], "evaluations": 0, "cells": 0, "distinct": 0, "samples": [], "passenger": []}
    idx = 0
    for ci, ctx in enumerate(BUILD_CONTEXTS):
        for bi, body in enumerate(THROWING_BODIES):
            for where in ("function", "inline", "method", "nested-try"):
                idx += 1
                if idx % n != shard:
                    continue
                pre = "g_ = |a, b| (a, b)\nh_ = || throw 'deep'\n"
                if where == "function":
                    pre += "safe_ = ||\n  try\n    %s\n  catch e\n    'rec'\n" % body
                    x = "safe_()"
                elif where == "method":
                    pre += "o_ =\n  safe: ||\n    try\n      %s\n    catch e\n      'rec'\n" % body
                    x = "o_.safe()"
                elif where == "nested-try":
                    pre += "safe_ = ||\n  try\n    try\n      %s\n    catch e: Number\n      'wrong'\n    catch e2\n      throw e2\n  catch e\n    'rec'\n" % body
                    x = "safe_()"
                else:
                    pre += "safe_ = |f| f()\n"
                    x = "(try\n  %s\ncatch e\n  'rec')" % body
                    continue_inline = "\n" in x
                    if continue_inline:
                        # an inline try needs its own lines: bind it through a callback instead
                        pre += "t_ = ||\n  try\n    %s\n  catch e\n    'rec'\n" % body
                        x = "safe_(t_)"
                real = pre + "r = %s\nprint r\nprint 'after'\n" % ctx.replace("X", x)
                ref = pre + "r = %s\nprint r\nprint 'after'\n" % ctx.replace("X", "'rec'")
                a = w.exec(real, timeout=20, limit_ms=3000)
                b = w.exec(ref, timeout=20, limit_ms=3000)
                rep["evaluations"] += 2; rep["cells"] += 1; rep["distinct"] += 1
                c01._passengers(rep, a, real)
                va = (a.get("outcome"), a.get("stdout")); vb = (b.get("outcome"), b.get("stdout"))
                if vb[0] != "ok":
                    rep["violations"].append({"key": "builder-context-harness:%d" % ci, "summary": "harness: the reference program of a builder context does not run: %s" % str(b.get("error"))[:100], "case": {"src": ref}})
                elif va != vb:
                    rep["violations"].append({"key": "builder-context:%d:%d:%s" % (ci, bi, where), "summary": "a caught error disturbed the values under construction around it: `%s` with a recovering call (%s, body `%s`) gives %s %r (%s), with the recovered value written out %r"
                                              % (ctx, where, body, va[0], (va[1] or "")[:80], str(a.get("error"))[:80].replace("\n", " "), (vb[1] or "")[:80]), "case": {"src": real, "reference": ref, "real": va, "expected": vb}})
                if not rep["samples"] and ci == 5 and bi == 3:
                    rep["samples"].append({"program": real})
    w.close()
    return rep

def run(tier, seed):
    chk = Check(PID, tier, seed)
    if not chk.build():
        return chk.finish({"evaluations": 0, "distinct_nontrivial": 0, "rule": "", "samples": []})
    quick = tier == "quick"
    cov = {"evaluations": 0, "distinct_nontrivial": 0, "samples": [], "streams": {}, "passenger_observations": [], "passenger_src": []}
    w = Worker()
    cov["witnesses_replayed"] = replay_witnesses(chk, w)
    w.close()
    c01.fold(chk, cov, "kgen-err", fan_out(c01._kgen_shard, tier=tier, seed=seed, budget_s=28 if quick else 600, profile="GenErr", strict_passengers=True))
    st = {"cells": 0}
    for sh in fan_out(_adaptor_shard, tier=tier, seed=seed):
        chk.merge_shard(sh)
        if "harness_error" in sh:
            continue
        st["cells"] += sh["cells"]
    cov["streams"]["adaptor-fault-grid"] = st
    c01.fold(chk, cov, "builder-contexts", fan_out(_builder_shard, tier=tier, seed=seed))
    cov["evaluations"] += st["cells"]
    cov["distinct_nontrivial"] += st["cells"]
    cov["passenger_observations"] = cov["passenger_observations"][:30]
    cov["rule"] = ("kgen err profile: try expressions (value used) nested up to depth 3, 0-2 typed catches (String, Err0-2, Number, Map) before the untyped one, "
                   "optional finally, handlers that rethrow, faults planted in the try body directly, 1-3 calls deep, inside each / keep / fold / consume "
                   "callbacks, inside generator bodies consumed by for / to_list, inside string interpolation; fault kinds: throw string, throw object with "
                   "@type/@display, bad index, type mismatch, failed assert / assert_eq, too few / too many arguments; state lists record progress before / after "
                   "the fault and in finally; uncaught faults end the program. Model vs real in three contexts; residue, VM-monitor faults and panics are "
                   "violations here. Builder contexts: a call that recovers from an error (function, method, nested try, callback) placed inside 17 string / list / tuple / map / call constructions under way, the callee throwing in 11 ways while it builds strings and sequences itself - output identical to the same construction with the recovered value written out. distinct = distinct program texts that printed at least one line.")
    return chk.finish(cov, assumptions=["reference model of exception semantics (calibrated: 0 residual disagreements on 6 000 err-profile programs of the repaired tree)",
                                         "shape guards for the recorded defects: no control flow leaves a try/catch that has a finally and its handlers cannot fail (F-B1), "
                                         "call results inside try go to fresh names (F-B2), no map-pattern catch (F-B5), errors crossing a generator boundary are caught "
                                         "untyped and not inspected (F-B6), faulting operators sit in used positions (F-O1)",
                                         "error wording is never compared; a caught runtime error is only observed through `type e`"])
