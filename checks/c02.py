"""C02 functions, closures and generators. Oracles: reference model vs real run of generated
programs of the fn profile (argument forms, defaults evaluated once, variadics, nested and map
unpacking, packed and piped calls, methods with self, closures capturing by copy, recursion,
generators consumed by for / next / to_tuple), context relation, and a bounded-exhaustive stream of
binding layouts with sentinel arguments."""
import os, time
from .common import *
from .modelrun import *
from . import c01
from kv.pool import fan_out

PID = "C02"

def _layout_shard(shard, n, tier, seed, budget_s):
    """(required r<=3) x (optional o<=3) x (variadic?) x (supplied k<=r+o+2) x call form: each argument is a distinct
    sentinel, defaults are 100+i, so any register mix-up changes the printed binding."""
    w = Worker()
    rep = {"violations": [], "evaluations": 0, "distinct": 0, "samples": [], "passenger": [], "layouts": 0, "errors_expected": 0}
    idx = 0
    for r in range(4):
        for o in range(4):
            for v in (False, True):
                for k in range(r + o + 3):
                    for form in ("paren", "packed_list", "packed_tuple", "piped", "split_packed", "unpack_first"):
                        idx += 1
                        if idx % n != shard:
                            continue
                        if form == "piped" and k == 0:
                            continue
                        if form == "unpack_first" and r == 0:
                            continue
                        names = ["a%d" % i for i in range(r)] + ["b%d" % i for i in range(o)]
                        params = ["a%d" % i for i in range(r)] + ["b%d = %d" % (i, 100 + i) for i in range(o)] + (["rest..."] if v else [])
                        args = [str(i + 1) for i in range(k)]
                        if form == "unpack_first":
                            params[0] = "(a0, u)"
                            names = names[:1] + ["u"] + names[1:]
                            args = args[:]
                            if args:
                                args[0] = "(1, 77)"
                        fn = "f = |%s| (%s)" % (", ".join(params), ", ".join(names + (["rest"] if v else [])) + ("," if len(names) + (1 if v else 0) == 1 else ""))
                        if form == "paren": call = "f(%s)" % ", ".join(args)
                        elif form == "packed_list": call = "f([%s]...)" % ", ".join(args)
                        elif form == "packed_tuple": call = "f((%s)...)" % (", ".join(args) + ("," if len(args) == 1 else ""))
                        elif form == "piped": call = "(%s -> f %s)" % (args[0], ", ".join(args[1:2])) if len(args) <= 2 else None
                        elif form == "split_packed":
                            h = len(args) // 2
                            call = "f(%s)" % ", ".join(args[:h] + ["[%s]..." % ", ".join(args[h:])])
                        else: call = "f(%s)" % ", ".join(args)
                        if call is None:
                            continue
                        # expected binding
                        if k < r or (k > r + o and not v):
                            want = "#E"
                            rep["errors_expected"] += 1
                        else:
                            vals = []
                            for i in range(r):
                                if form == "unpack_first" and i == 0:
                                    vals += ["1", "77"]
                                else:
                                    vals.append(str(i + 1))
                            for i in range(o):
                                vals.append(str(r + i + 1) if r + i < k else str(100 + i))
                            if v:
                                extra = [str(i + 1) for i in range(r + o, k)]
                                vals.append("(" + ", ".join(extra) + ")")
                            want = "(" + ", ".join(vals) + ")"
                        src = "%s\nx = try\n  %s\ncatch _\n  '#E'\nprint(x)\n" % (fn, call)
                        rr = w.exec(src, timeout=20, limit_ms=3000)
                        rep["evaluations"] += 1
                        rep["layouts"] += 1
                        rep["distinct"] += 1
                        c01._passengers(rep, rr, src)
                        got = rr.get("stdout", "").rstrip("\n") if rr.get("outcome") == "ok" else "<%s: %s>" % (rr.get("outcome"), (rr.get("error") or "")[:80])
                        if got != want:
                            rep["violations"].append({"key": "layout:r%d:o%d:v%d:k%d:%s" % (r, o, v, k, form), "summary": "binding layout `%s` called as `%s`: expected %s, got %s" % (fn, call, want, got),
                                                      "case": {"src": src, "expected": want, "real": got}})
                        if len(rep["samples"]) < 1 and k == 3 and o == 1 and v:
                            rep["samples"].append({"fn": fn, "call": call, "expected": want})
    # nested unpacking: (p0, .., [rest... | ...], .., qn) against tuples and lists of every length 0..5
    def lit(kind, vals):
        if kind == "list": return "[" + ", ".join(map(str, vals)) + "]"
        return "()" if not vals else "(%s,)" % vals[0] if len(vals) == 1 else "(" + ", ".join(map(str, vals)) + ")"
    for nb in range(3):
        for na in range(3):
            for ell in ("none", "id", "anon"):
                if (ell != "none" and nb and na) or (ell == "none" and na):
                    continue
                for L in range(6):
                    for kind in ("tuple", "list", "pair-zip", "pair-map"):
                        for outer in (0, 1):          # the unpacked parameter alone / between two plain parameters
                            idx += 1
                            if idx % n != shard:
                                continue
                            if kind.startswith("pair") and (L != 2 or outer):
                                continue              # value pairs handed to a callback by an adaptor (a temporary tuple)
                            before = ["p%d" % i for i in range(nb)]; after = ["q%d" % i for i in range(na)]
                            mid = [] if ell == "none" else ["rest..."] if ell == "id" else ["..."]
                            names = before + (["rest"] if ell == "id" else []) + after
                            if not names:
                                continue
                            pat = "(%s)" % ", ".join(before + mid + after)
                            vals = list(range(10, 10 + L))
                            if ell == "none":
                                exp = [str(v) for v in vals] if L == nb else None
                            elif L < nb + na:
                                exp = None
                            else:
                                rest = vals[nb:L - na] if na else vals[nb:]
                                exp = [str(v) for v in vals[:nb]] + ([lit(kind, rest).replace(",)", ")")] if ell == "id" else []) + ([str(v) for v in vals[L - na:]] if na else [])
                            if outer:
                                fn = "f = |x, %s, y| (x, %s, y)" % (pat, ", ".join(names))
                                call = "f(1, %s, 2)" % lit(kind, vals)
                                want = "#E" if exp is None else "(1, " + ", ".join(exp) + ", 2)"
                            else:
                                fn = "f = |%s| (%s,)" % (pat, ", ".join(names))
                                call = "f(%s)" % lit(kind, vals)
                                if kind == "pair-zip": call = "(10,).zip((11,)).each(f).to_list()[0]"
                                if kind == "pair-map": call = "m = {}\n  m.insert 10, 11\n  m.each(f).to_list()[0]"
                                want = "#E" if exp is None else "(" + ", ".join(exp) + ")"
                            src = "%s\nx = try\n  %s\ncatch _\n  '#E'\nprint(x)\n" % (fn, call)
                            rr = w.exec(src, timeout=20, limit_ms=3000)
                            rep["evaluations"] += 1; rep["layouts"] += 1; rep["distinct"] += 1
                            rep["errors_expected"] += 1 if exp is None else 0
                            c01._passengers(rep, rr, src)
                            got = rr.get("stdout", "").rstrip("\n") if rr.get("outcome") == "ok" else "<%s: %s>" % (rr.get("outcome"), (rr.get("error") or "")[:80])
                            if got != want:
                                rep["violations"].append({"key": "nested-layout:%d:%d:%s:%d:%s:%d" % (nb, na, ell, L, kind, outer), "summary": "nested unpacking `%s` called as `%s`: expected %s, got %s" % (fn, call, want, got),
                                                          "case": {"src": src, "expected": want, "real": got}})
    # several packed arguments in one call: every segment is a plain argument or a packed list/tuple of 0..3 values; the callee must
    # see the concatenation (a running offset that is lost after a packed argument of size != 1 shifts or overwrites later values)
    import itertools
    SEG = ("plain", "p0", "p1", "p2", "p3")
    for nseg in (2, 3, 4):
        for segs in itertools.product(SEG, repeat=nseg):
            if sum(1 for g in segs if g != "plain") < 2:
                continue
            for fnkind in (0, 1, 2):
                idx += 1
                if idx % n != shard:
                    continue
                flat = []; parts = []; nxt = 1
                for si, g in enumerate(segs):
                    if g == "plain":
                        parts.append(str(nxt)); flat.append(nxt); nxt += 1
                    else:
                        m = int(g[1]); vals = list(range(nxt, nxt + m)); nxt += m; flat += vals
                        parts.append(lit("list" if (si + fnkind) % 2 == 0 else "tuple", vals) + "...")
                if fnkind == 0:
                    fn = "f = |rest...| (0, rest)"; r_, o_ = 0, 0
                elif fnkind == 1:
                    fn = "f = |a0, b0 = 100, rest...| (a0, b0, rest)"; r_, o_ = 1, 1
                else:
                    fn = "f = |a0, a1, b0 = 100, b1 = 101| (a0, a1, b0, b1)"; r_, o_ = 2, 2
                k = len(flat)
                if k < r_ or (fnkind == 2 and k > r_ + o_):
                    want = "#E"; rep["errors_expected"] += 1
                elif fnkind == 0:
                    want = "(0, (" + ", ".join(map(str, flat)) + "))"
                elif fnkind == 1:
                    want = "(%d, %s, (%s))" % (flat[0], flat[1] if k > 1 else 100, ", ".join(map(str, flat[2:])))
                else:
                    want = "(%d, %d, %s, %s)" % (flat[0], flat[1], flat[2] if k > 2 else 100, flat[3] if k > 3 else 101)
                call = "f(%s)" % ", ".join(parts)
                src = "%s\nx = try\n  %s\ncatch _\n  '#E'\nprint(x)\n" % (fn, call)
                rr = w.exec(src, timeout=20, limit_ms=3000)
                rep["evaluations"] += 1; rep["layouts"] += 1; rep["distinct"] += 1
                c01._passengers(rep, rr, src)
                got = rr.get("stdout", "").rstrip("\n") if rr.get("outcome") == "ok" else "<%s: %s>" % (rr.get("outcome"), (rr.get("error") or "")[:80])
                if got != want:
                    rep["violations"].append({"key": "multi-packed:%s:%d" % ("-".join(segs), fnkind), "summary": "several packed arguments `%s` called as `%s`: expected %s, got %s" % (fn, call, want, got),
                                              "case": {"src": src, "expected": want, "real": got}})
    # captures next to parameter patterns: the body of a function whose parameters are patterns (tuple, map, renamed map keys,
    # string keys, defaults) reads a variable of the enclosing scope - also one that is spelled like a key of the pattern, which
    # the pattern does not bind. Function / generator / inner closure, enclosing function / top level.
    PATS = [("|v|", "5"), ("|(v, w)|", "(5, 6)"), ("|{v}|", "{v: 5}"), ("|{k as v}|", "{k: 5}"), ("|{'k' as v}|", "{k: 5}"), ("|(a, {k as v})|", "(1, {k: 5})"),
            ("|{k as v, j}|", "{k: 5, j: 1}"), ("|{j, k as v}|", "{k: 5, j: 1}"), ("|a, {k as v}|", "1, {k: 5}"), ("|{k as v}, a = 2|", "{k: 5}"), ("|v = 5|", ""),
            ("|{k as _, j as v}|", "{k: 0, j: 5}"), ("|(a, ({k as v}, b))|", "(1, ({k: 5}, 2))")]
    for (params, args), outer_name, kind, scope in itertools.product(PATS, ("k", "z", "j_"), ("fn", "generator", "inner"), ("function", "top")):
        idx += 1
        if idx % n != shard:
            continue
        body = {"fn": ["  v + %s" % outer_name], "generator": ["  yield v + %s" % outer_name], "inner": ["  g_ = || v + %s" % outer_name, "  g_()"]}[kind]
        call = "f_(%s)" % args + (".to_list()" if kind == "generator" else "")
        lines = ["%s = 100" % outer_name, "f_ = %s" % params] + body + ["r_ = try", "  %s" % call, "catch e_", "  '#E'"]
        if scope == "function":
            src = "outer_ = ||\n" + "".join("  " + l + "\n" for l in lines) + "  r_\nprint outer_()\n"
        else:
            src = "".join(l + "\n" for l in lines) + "print r_\n"
        want = "[105]" if kind == "generator" else "105"
        rr = w.exec(src, timeout=20, limit_ms=3000)
        rep["evaluations"] += 1; rep["layouts"] += 1; rep["distinct"] += 1
        c01._passengers(rep, rr, src)
        got = rr.get("stdout", "").rstrip("\n") if rr.get("outcome") == "ok" else "<%s: %s>" % (rr.get("outcome"), (rr.get("error") or "")[:80])
        if got != want:
            rep["violations"].append({"key": "capture-pattern:%s:%s:%s:%s" % (params, outer_name, kind, scope), "summary": "capture next to a parameter pattern `%s` (outer `%s`, %s, %s): expected %s, got %s" % (params, outer_name, kind, scope, want, got),
                                      "case": {"src": src, "expected": want, "real": got}})
    w.close()
    return rep

def run(tier, seed):
    chk = Check(PID, tier, seed)
    if not chk.build():
        return chk.finish({"evaluations": 0, "distinct_nontrivial": 0, "rule": "", "samples": []})
    quick = tier == "quick"
    cov = {"evaluations": 0, "distinct_nontrivial": 0, "samples": [], "streams": {}, "passenger_observations": [], "passenger_src": []}
    w = Worker()
    cov["witnesses_replayed"] = replay_witnesses(chk, w)
    w.close()
    only = os.environ.get("KV_STREAMS")
    if not only or "kgen" in only:
        c01.fold(chk, cov, "kgen-fn", fan_out(c01._kgen_shard, tier=tier, seed=seed, budget_s=25 if quick else 480, profile="fn"))
    if not only or "layouts" in only:
        c01.fold(chk, cov, "binding-layouts", fan_out(_layout_shard, tier=tier, seed=seed, budget_s=120))
    cov["passenger_observations"] = cov["passenger_observations"][:30]
    cov["rule"] = ("kgen fn profile: the core profile plus function definitions with positional / default (traced, evaluated once) / variadic / ignored / "
                   "nested-unpacked ((a, b), (a, rest...), (rest..., a)) / map-unpacked ({x as a, y as b}) parameters, closures capturing numbers by copy and "
                   "containers by reference, closure factories, recursive functions, maps with methods using self, generators (yield in for / while / "
                   "try-catch-finally / after a conditional return) consumed by for with break, next().get(), to_tuple, to_list; call forms f(a, b), "
                   "a -> f b, f xs... ; model vs real at top level, in a function and after 60 locals. Binding layouts: complete enumeration of "
                   "required<=3 x optional<=3 x variadic x supplied<=arity+2 x 6 call forms with sentinel arguments. distinct = distinct program texts / layouts.")
    return chk.finish(cov, assumptions=["reference model kvmodel (calibrated on 20 000 fn-profile programs of the repaired tree with zero residual disagreements)",
                                         "captured outer variables are read-only inside generated function bodies (assigning a captured name makes it a local in Koto; recorded as F-A3 territory)",
                                         "piped calls inside parentheses carry at most one extra argument (a paren-free call takes one argument there)"])
