"""C05 accepted programs compile to well-formed code; limits are reported as errors; compilation
is deterministic. Monitors: structural chunk checker over every compiled chunk (public decoder),
online VM monitor (instruction observer hook), internal-fault classifier, size-scaled limit
families with a known outcome, repeated compilation in and across processes."""
import json, os, time
from .common import *
from kv.pool import fan_out

PID = "C05"

def _new_rep():
    return {"violations": [], "evaluations": 0, "distinct": set(), "compiled": 0, "ran": 0, "bodies": 0, "instructions": 0,
            "vm_instructions": 0, "samples": [], "hangs": 0, "excluded": 0, "digests": {}, "rejected": 0}

def _judge(rep, src, r, origin):
    """Applies the C05 oracles to one exec response."""
    out = r.get("outcome")
    if out in ("ok", "runtime_error", "compiled"):
        rep["compiled"] += 1
        ch = r.get("chunk") or {}
        rep["bodies"] += ch.get("bodies", 0)
        rep["instructions"] += ch.get("instructions", 0)
        rep["vm_instructions"] += (r.get("vm") or {}).get("instructions", 0)
        if out != "compiled":
            rep["ran"] += 1
        if ch.get("instructions", 0) >= 3:
            rep["distinct"].add(sha(src))
    elif out == "compile_error":
        rep["rejected"] += 1
    elif out == "hang":
        rep["hangs"] += 1
    elif out == "died" and r.get("kind") in ("stack-overflow", "alloc"):
        rep["excluded"] += 1
    for kind, rule, detail in passenger_faults(r):
        rep["violations"].append({"key": "%s:%s:%s" % (kind, rule, sha(src)), "summary": "%s %s: %s" % (kind, rule, detail[:200]),
                                  "case": {"src": src, "origin": origin, "rule": rule, "detail": detail}})
    if r.get("determinism_diffs"):
        rep["violations"].append({"key": "determinism:%s" % sha(src), "summary": "%d of the repeated compilations differ from the first" % r["determinism_diffs"],
                                  "case": {"src": src, "origin": origin}})
    if r.get("chunk_digest"):
        rep["digests"][sha(src)] = r["chunk_digest"]

def _corpus_shard(shard, n, tier, seed, budget_s):
    w = Worker()
    t_end = time.time() + budget_s
    progs = corpus_mod.load()
    rng = rng_for(seed, "c05-nbh", shard)
    order = [i for i in range(len(progs)) if i % n == shard]
    rng.shuffle(order)
    rep = _new_rep()
    keep = 1.0 if tier == "thorough" else 0.2
    seen = set()
    def drive(src, origin, runnable):
        rep["evaluations"] += 1
        h = sha(src)
        if h in seen:
            return
        seen.add(h)
        if runnable and corpus_mod.safe_to_run(src):
            r = w.exec(src, timeout=10, limit_ms=40, run_tests=True, determinism=2)
        else:
            r = w.exec(src, timeout=10, compile_only=True, determinism=2)
        _judge(rep, src, r, origin)
    for pi in order:
        if time.time() > t_end:
            rep["budget_exhausted"] = True
            break
        p = progs[pi]
        drive(p["src"], p["id"], p["runnable"])
        try:
            toks = w.call({"op": "tokens", "src": p["src"]}, timeout=10).get("tokens")
        except (WorkerDied, WorkerHang):
            toks = None
        if not toks:
            continue
        for kind, idx, text in token_mutants(p["src"], toks):
            if keep < 1.0 and rng.random() > keep:
                continue
            if time.time() > t_end:
                break
            drive(text, "%s/%s@%d" % (p["id"], kind, idx), p["runnable"])
            if len(rep["samples"]) < 1 and rng.random() < 0.01:
                rep["samples"].append({"origin": "%s/%s@%d" % (p["id"], kind, idx), "src": text[:300]})
    # second process: digests of the same texts must agree (cross-process determinism)
    w2 = Worker()
    again = 0
    for p in [progs[i] for i in order[:400]]:
        h = sha(p["src"])
        if h in rep["digests"]:
            r = w2.exec(p["src"], timeout=10, compile_only=True, determinism=1)
            again += 1
            if r.get("chunk_digest") and r["chunk_digest"] != rep["digests"][h]:
                rep["violations"].append({"key": "determinism-xproc:%s" % h, "summary": "two processes compiled the same text to different code",
                                          "case": {"src": p["src"], "origin": p["id"]}})
    rep["cross_process"] = again
    w2.close()
    w.close()
    rep["distinct"] = len(rep["distinct"])
    rep["digests"] = len(rep["digests"])
    return rep

# ---- limit scaling: families with a known outcome -------------------------------------------------
def _fam_locals(n):
    return "\n".join("v%d = %d" % (i, i) for i in range(n)) + "\nprint v0 + v%d\n" % (n - 1), str(n - 1)
def _fam_args(n):
    ps = ", ".join("a%d" % i for i in range(n))
    return "f = |%s|\n  a0 + a%d\nprint f(%s)\n" % (ps, n - 1, ", ".join(str(i) for i in range(n))), str(n - 1)
def _fam_call_args(n):
    return "f = |xs...| size xs\nprint f(%s)\n" % ", ".join(str(i) for i in range(n)), str(n)
def _fam_captures(n):
    s = "\n".join("c%d = %d" % (i, i) for i in range(n))
    return "w = ||\n" + "\n".join("  " + l for l in s.split("\n")) + "\n  g = || %s\n  g()\nprint w()\n" % " + ".join("c%d" % i for i in range(n)), str(n * (n - 1) // 2)
def _fam_defaults(n):
    ps = ", ".join("a%d = %d" % (i, i) for i in range(n))
    return "f = |%s|\n  a0 + a%d\nprint f()\n" % (ps, n - 1), str(n - 1)
def _fam_depth(n):
    return "x = 1\nprint " + "(" * n + "x" + " + 1)" * n + "\n", str(n + 1)
def _fam_list(n):
    return "x = 1\nl = [%s]\nprint size(l), l[%d]\n" % (", ".join("x + %d" % i for i in range(n)), n - 1), "(%d, %d)" % (n, n)
def _fam_tuple(n):
    return "x = 1\nl = (%s,)\nprint size(l), l[%d]\n" % (", ".join("x + %d" % i for i in range(n)), n - 1), "(%d, %d)" % (n, n)
def _fam_map(n):
    return "x = 1\nm = {%s}\nprint size(m), m.k%d\n" % (", ".join("k%d: x + %d" % (i, i) for i in range(n)), n - 1), "(%d, %d)" % (n, n)
def _fam_match_arms(n):
    return "x = %d\nr = match x\n" % (n - 1) + "".join("  %d then 'a%d'\n" % (i, i) for i in range(n)) + "print r\n", "a%d" % (n - 1)
def _fam_interp(n):
    return "x = 7\nprint size('%s')\n" % ("{x}" * n), str(n)
def _fam_strings(n):
    return "l = [%s]\nprint size(l), l[%d]\n" % (", ".join("'s%d'" % i for i in range(n)), n - 1), "(%d, 's%d')" % (n, n - 1)
def _fam_ints(n):
    return "l = [%s]\nprint size(l), l[%d]\n" % (", ".join("%d" % (1000 + i) for i in range(n)), n - 1), "(%d, %d)" % (n, 1000 + n - 1)
def _body(n_bytes_target):
    # a statement compiles to a roughly constant number of bytes: scale by count
    return n_bytes_target
def _fam_loop_body(n):
    return "i = 0\nt = 0\nwhile i < 2\n" + "  t += 1\n" * n + "  i += 1\nprint t\n", str(2 * n)
def _fam_for_body(n):
    return "t = 0\nfor i in 0..2\n" + "  t += 1\n" * n + "print t\n", str(2 * n)
def _fam_if_body(n):
    return "t = 0\nc = true\nif c\n" + "  t += 1\n" * n + "else\n" + "  t -= 1\n" * n + "print t\n", str(n)
def _fam_fn_body(n):
    return "f = ||\n  t = 0\n" + "  t += 1\n" * n + "  t\nprint f()\n", str(n)
def _fam_try_body(n):
    return "t = 0\ntry\n" + "  t += 1\n" * n + "  throw 'x'\ncatch e\n  t += 1\nprint t\n", str(n + 1)
def _fam_loop_continue(n):
    return "t = 0\nfor i in 0..3\n  if i == 1 then continue\n" + "  t += 1\n" * n + "print t\n", str(2 * n)
def _fam_switch_arms(n):
    return "x = %d\nr = switch\n" % (n - 1) + "".join("  x == %d then 'a%d'\n" % (i, i) for i in range(n)) + "print r\n", "a%d" % (n - 1)
def _fam_chain(n):
    return "m = {f: || self}\nprint size(m" + ".f()" * n + ")\n", "1"
def _fam_binary(n):
    return "x = 1\nprint " + " + ".join(["x"] * n) + "\n", str(n)
def _fam_nested_fn(n):
    src = ""
    for i in range(n):
        src += "  " * i + "f%d = ||\n" % i
    src += "  " * n + "42\n"
    for i in range(n - 1, -1, -1):
        src += "  " * (i + 1) + "f%d()\n" % (i + 1) if i + 1 < n else ""
    return None

def _fam_import_items(n):
    return "x = from number import %s\nprint size(x), x[%d] == number.pi\n" % (", ".join(["pi"] * n), n - 1), "(%d, true)" % n if n > 1 else None
def _fam_debug_statements(n):
    return "f = ||\n" + "  debug 1\n" * n + "  'done'\nr = f()\nprint r\n", "done"
def _fam_nested_args_leading(n):
    names = ", ".join("a%d" % i for i in range(n))
    return "f = |(first..., %s)| (size(first), a%d)\nprint f((9, 9, %s))\n" % (names, n - 1, ", ".join(str(i) for i in range(n))), "(2, %d)" % (n - 1)
def _fam_nested_args_trailing(n):
    names = ", ".join("a%d" % i for i in range(n))
    return "f = |(%s, rest...)| (size(rest), a%d)\nprint f((%s, 9, 9))\n" % (names, n - 1, ", ".join(str(i) for i in range(n))), "(2, %d)" % (n - 1)
def _fam_match_nested_leading(n):
    names = ", ".join("a%d" % i for i in range(n))
    return "r = match (9, 9, %s)\n  (..., %s) then a%d\n  else 'miss'\nprint r\n" % (", ".join(str(i) for i in range(n)), names, n - 1), str(n - 1)
def _fam_match_alternatives(n):
    return "r = match %d\n  %s then 'hit'\n  else 'miss'\nprint r\n" % (n - 1, " or ".join(str(i) for i in range(n))), "hit"
def _fam_try_break_depth(n):
    # break out of n nested try blocks inside a loop, then throw: no stale catch point may catch it
    src = "r = []\nfor i in 0..2\n"
    for d in range(n):
        src += "  " * (d + 1) + "try\n"
    src += "  " * (n + 1) + "if i == 1\n" + "  " * (n + 2) + "break\n" + "  " * (n + 1) + "r.push i\n"
    for d in range(n - 1, -1, -1):
        src += "  " * (d + 1) + "catch e%d\n" % d + "  " * (d + 2) + "r.push 'stale'\n"
    src += "x = try\n  throw 'after'\ncatch e\n  'caught'\nprint x, r\n"
    return src, "('caught', [0])"

FAMILIES = {
    "import_items": (_fam_import_items, "reg"), "debug_statements": (_fam_debug_statements, "reg"), "nested_args_leading": (_fam_nested_args_leading, "reg"),
    "nested_args_trailing": (_fam_nested_args_trailing, "reg"), "match_nested_leading": (_fam_match_nested_leading, "reg"), "match_alternatives": (_fam_match_alternatives, "reg"),
    "try_break_depth": (_fam_try_break_depth, "small"),
    "locals": (_fam_locals, "reg"), "args": (_fam_args, "reg"), "call_args": (_fam_call_args, "reg"), "captures": (_fam_captures, "reg"),
    "defaults": (_fam_defaults, "reg"), "depth": (_fam_depth, "reg"), "list": (_fam_list, "big"), "tuple": (_fam_tuple, "big"), "map": (_fam_map, "big"),
    "match_arms": (_fam_match_arms, "big"), "switch_arms": (_fam_switch_arms, "big"), "interp": (_fam_interp, "big"), "strings": (_fam_strings, "big"),
    "ints": (_fam_ints, "big"), "loop_body": (_fam_loop_body, "jump"), "for_body": (_fam_for_body, "jump"), "if_body": (_fam_if_body, "jump"),
    "fn_body": (_fam_fn_body, "jump"), "try_body": (_fam_try_body, "jump"), "loop_continue": (_fam_loop_continue, "jump"),
    "chain": (_fam_chain, "reg"), "binary": (_fam_binary, "reg"),
}
def _grid(kind, tier):
    reg = [1, 2, 3, 8, 16, 32, 64, 100, 120, 126, 127, 128, 129, 130, 200, 250, 251, 252, 253, 254, 255, 256, 257, 258, 300, 512]
    if kind == "reg":
        return reg
    if kind == "small":
        return [1, 2, 3, 5, 8, 16, 32]
    if kind == "big":
        g = reg + [1000, 4096, 16382, 16383, 16384, 16385, 16386]
        if tier == "thorough":
            g += [32768, 65534, 65535, 65536, 65537, 70000]
        return g
    # jump: statements of ~4-6 bytes each: sweep statement counts so that the body crosses 64 KiB
    g = [1, 10, 100, 1000, 5000, 10000, 10900, 10920, 10921, 10922, 10923, 10924, 10925, 10930, 11000, 13000, 13100, 13105, 13106, 13107, 13108, 13109, 13110, 16000,
         16380, 16381, 16382, 16383, 16384, 16385, 16390, 20000, 21840, 21844, 21845, 21846, 21850, 22000, 30000]
    if tier == "thorough":
        g += list(range(10900, 10940)) + list(range(13095, 13120)) + list(range(16370, 16400)) + list(range(21835, 21860)) + [32766, 32767, 32768, 32769, 40000, 65536]
    return sorted(set(g))

def _limits_shard(shard, n, tier, seed, budget_s):
    w = Worker()
    rep = _new_rep()
    rep["limit_points"] = 0
    rep["limit_rejected"] = 0
    cells = []
    for name, (fn, kind) in sorted(FAMILIES.items()):
        for k in _grid(kind, tier):
            cells.append((name, fn, k))
    for idx, (name, fn, k) in enumerate(cells):
        if idx % n != shard:
            continue
        src, expected = fn(k)
        if expected is None:
            continue
        rep["evaluations"] += 1
        rep["limit_points"] += 1
        r = w.exec(src, timeout=60, limit_ms=20000)
        _judge(rep, src, r, "%s(%d)" % (name, k))
        out = r.get("outcome")
        origin = "%s(%d)" % (name, k)
        if out == "compile_error":
            rep["limit_rejected"] += 1
            continue
        if out == "ok":
            got = (r.get("stdout") or "").strip()
            if name == "debug_statements":
                got = got.split("\n")[-1]      # the debug lines share the captured stream
            if got != expected:
                rep["violations"].append({"key": "limit-misbehaves:%s" % name, "summary": "%s compiled but printed %r instead of %r" % (origin, got[:60], expected),
                                          "case": {"src_head": src[:300], "family": name, "n": k, "got": got[:200], "expected": expected}})
        elif out == "runtime_error":
            rep["violations"].append({"key": "limit-misbehaves:%s" % name, "summary": "%s compiled but failed at run time: %s" % (origin, (r.get("error") or "")[:120]),
                                      "case": {"src_head": src[:300], "family": name, "n": k, "error": r.get("error")}})
        elif out == "panic":
            p = r.get("panic") or {}
            if not p.get("excluded"):
                rep["violations"].append({"key": "limit-panic:%s:%s" % (name, p.get("signature")), "summary": "%s panicked (%s): %s" % (origin, r.get("phase"), p.get("message", "")[:100]),
                                          "case": {"src_head": src[:300], "family": name, "n": k, "panic": p}})
        elif out == "hang":
            rep["violations"].append({"key": "limit-hang:%s" % name, "summary": "%s did not finish within 60 s" % origin, "case": {"family": name, "n": k}})
        if len(rep["samples"]) < 1:
            rep["samples"].append({"family": name, "n": k, "outcome": out})
    w.close()
    rep["distinct"] = len(rep["distinct"])
    rep["digests"] = len(rep["digests"])
    return rep

# ---- control-flow nesting grid: loops x stacks of enclosing constructs x ways of leaving -----------------
def _ind(lines, k=1):
    return ["  " * k + l for l in lines]
WRAPPERS = {
    "try": lambda b: ["try"] + _ind(b) + ["catch e_", "  acc.push 'c'"],
    "try-finally": lambda b: ["try"] + _ind(b) + ["catch e_", "  acc.push 'c'", "finally", "  acc.push 'f'"],
    "in-catch": lambda b: ["try", "  throw 'x'", "catch e_"] + _ind(b),
    "in-finally": lambda b: ["try", "  acc.push 't'", "catch e_", "  acc.push 'c'", "finally"] + _ind(b),
    "if": lambda b: ["if i >= 0"] + _ind(b),
    "match": lambda b: ["match i", "  -1 then", "    acc.push 'm'", "  x_ then"] + _ind(b, 2),
    "for": lambda b: ["for j_ in 0..2"] + _ind(b),
}
EXITS = ["break", "break i", "continue", "return acc", "throw 'boom'", "acc.push 'none'"]
LOOPS = ["for", "while", "until", "loop"]

def cf_program(loop, stack, exit_stmt):
    body = ["acc.push i", "if i == 1", "  " + exit_stmt, "acc.push 'after'"]
    for wname in reversed(stack):
        body = WRAPPERS[wname](body)
    if loop == "for":
        lines = ["for i in 0..3"] + _ind(body)
    else:
        head = {"while": "while k < 3", "until": "until k >= 3", "loop": "loop"}[loop]
        pre = ["i = k", "k += 1"] + (["if i >= 3", "  break"] if loop == "loop" else [])
        lines = ["k = 0", head] + _ind(pre + body)
    fn = ["f = ||", "  acc = []"] + _ind(lines) + ["  acc.push 'end'", "  acc"]
    return "\n".join(fn + ["r = try", "  f()", "catch e", "  'E'", "print r"]) + "\n"

def cf_stacks(tier, rng):
    import itertools
    names = sorted(WRAPPERS)
    for d in (1, 2, 3):
        for st in itertools.product(names, repeat=d):
            yield st
    if tier == "thorough":
        for st in itertools.product(names, repeat=4):
            yield st
    else:
        for _ in range(150):
            yield tuple(rng.choice(names) for _ in range(4))

def _cf_shard(shard, n, tier, seed, budget_s):
    """Every program the compiler accepts goes through the chunk checker (builder / try balance at every join, incl. the back edge a
    `continue` takes and the exit a `break` takes out of nested try blocks) and runs under the instruction observer; the four loop
    spellings of the same body must print the same list."""
    w = Worker()
    rep = _new_rep()
    rep["loop_kind_comparisons"] = 0
    rng = rng_for(seed, "c05-cf")
    cells = [(st, ex) for st in cf_stacks(tier, rng) for ex in EXITS]
    for idx, (st, ex) in enumerate(cells):
        if idx % n != shard:
            continue
        outs = {}
        for loop in LOOPS:
            src = cf_program(loop, st, ex)
            rep["evaluations"] += 1
            r = w.exec(src, timeout=10, limit_ms=2000, determinism=2)
            _judge(rep, src, r, "cf %s / %s / %s" % (loop, "+".join(st), ex))
            o = r.get("outcome")
            if o == "panic" and not (r.get("panic") or {}).get("excluded"):
                rep["violations"].append({"key": panic_key(r), "summary": "panic in the control-flow grid: %s" % (r.get("panic") or {}).get("message", "")[:100], "case": {"src": src}})
            outs[loop] = (o, (r.get("stdout") or "").strip()) if o in ("ok", "runtime_error", "compile_error") else None
        vals = [v for v in outs.values() if v is not None]
        if len(vals) == len(LOOPS):
            rep["loop_kind_comparisons"] += 1
            if len(set(vals)) > 1:
                rep["violations"].append({"key": "cf-loop-kinds:%s" % sha("+".join(st) + ex), "summary": "for / while / until / loop over the same body (%s, leaving with `%s`) print different results: %r" % ("+".join(st), ex, outs),
                                          "case": {"src": cf_program("for", st, ex), "other": cf_program("while", st, ex), "outs": outs}})
        if len(rep["samples"]) < 1 and len(st) == 3:
            rep["samples"].append({"origin": "cf for / %s / %s" % ("+".join(st), ex), "src": cf_program("for", st, ex), "stdout": outs.get("for")})
    w.close()
    rep["distinct"] = len(rep["distinct"])
    rep["digests"] = len(rep["digests"])
    return rep

def run(tier, seed):
    chk = Check(PID, tier, seed)
    if not chk.build():
        return chk.finish({"evaluations": 0, "distinct_nontrivial": 0, "rule": "", "samples": []})
    quick = tier == "quick"
    cov = {"evaluations": 0, "distinct_nontrivial": 0, "samples": [], "streams": {}}
    only = os.environ.get("KV_STREAMS")
    for name, fn, budget in [("corpus", _corpus_shard, 30 if quick else 900), ("limits", _limits_shard, 600), ("control-flow", _cf_shard, 600)]:
        if only and name not in only.split(","):
            continue
        shards = fan_out(fn, tier=tier, seed=seed, budget_s=budget)
        st = {}
        for s in shards:
            chk.merge_shard(s)
            if "harness_error" in s:
                continue
            for k in ("evaluations", "distinct", "compiled", "ran", "bodies", "instructions", "vm_instructions", "hangs", "excluded", "rejected", "digests",
                      "cross_process", "limit_points", "limit_rejected", "loop_kind_comparisons"):
                if k in s:
                    st[k] = st.get(k, 0) + s[k]
            cov["samples"] += s["samples"][:1] if len(cov["samples"]) < 6 else []
        cov["streams"][name] = st
        cov["evaluations"] += st.get("evaluations", 0)
        cov["distinct_nontrivial"] += st.get("distinct", 0)
    # opcode coverage of what was executed under the VM monitor
    cov["rule"] = ("(a) corpus programs and a %s of their single-token neighbourhood: every text the compiler accepts is checked by the structural "
                   "chunk checker (decode, body structure, jump targets, register/constant ranges and kinds, capture slots, builder/try balance on "
                   "the CFG), compiled 3x in-process (byte/constant/source-map equality) and a sample again in a second process, and - when it "
                   "touches neither io nor os - executed under the instruction observer (ip on a decoded boundary, no error instruction, register "
                   "window) with internal-fault classification of the resulting error; (b) %d size-scaled families x a grid around every encoding "
                   "edge: each point must be rejected with a compile error or compile to a well-formed chunk that prints the known value; (c) control-flow nesting grid: 4 loop spellings x every stack of depth 1-3 (thorough: 1-4; quick: +150 sampled depth-4 stacks) of 7 enclosing constructs "
                   "(try, try-finally, catch body, finally body, if, match arm, inner for) x 6 ways of leaving (break, break value, continue, return, throw, none): chunk checker incl. try/builder balance at every join and back edge, instruction observer, "
                   "and the four loop spellings must print the same list. "
                   "distinct = distinct texts with >= 3 instructions." % ("seeded 20% slice" if quick else "complete enumeration", len(FAMILIES)))
    return chk.finish(cov, assumptions=["the public InstructionReader is the decoder the VM uses (a consistently wrong encoder/decoder pair is invisible structurally, visible behaviourally)",
                                         "limit families have outcomes that are obvious by construction (sums, sizes)"])
