#!/bin/sh
# Builds the worker offline from the files on disk. Idempotent.
set -e
cd /verif/harness
[ -f Cargo.lock ] || cp /repo/Cargo.lock Cargo.lock
export CARGO_NET_OFFLINE=true
cargo build --release --offline --target-dir /verif/target-rc
