"""Shard fan-out over processes."""
import multiprocessing as mp, os, time, traceback

def _run(args):
    fn, shard, n, kw = args
    try:
        return fn(shard, n, **kw)
    except Exception as e:  # harness error: never a violation
        return {"harness_error": "%s\n%s" % (e, traceback.format_exc())}

def fan_out(fn, n_shards=None, **kw):
    n = n_shards or min(16, os.cpu_count() or 1)
    ctx = mp.get_context("fork")
    with ctx.Pool(n) as pool:
        return pool.map(_run, [(fn, i, n, kw) for i in range(n)], chunksize=1)
