"""C17 Objects: operators and protocols dispatch to metamap entries as documented.
Differential monitor over a bounded-exhaustive dispatch grid. (a) Koto objects: for every operation
class (six arithmetic operators in both operand orders, six compound assignments, six comparisons,
negate, size, index, index-assign, access, access-assign, call, iteration, display, debug, type) x every
subset of the metakeys relevant to the operation x behaviours (returns a tagged value / throws
koto.unimplemented / throws an error) x metamap placement (own, shared through with_meta, reached
through @base for `.` lookups, named @meta entries) x the other operand (number, string, null, list,
plain map, second object with / without the @r key, a host object), the real run prints which metakey
function ran with which operands and what the operation produced; the dispatch model written from the
language guide predicts the complete trace. (b) Host objects: a Probe KotoObject in the worker
implements a mask-selected subset of the object interface and logs every trait call; the same
operation list must follow the same rules (left operand first, right-operand fallback, derived
comparisons, error for everything that is not implemented)."""
import itertools, random, time
from .common import *
from kv.pool import fan_out

PID = "C17"

ARITH = [("+", "add"), ("-", "subtract"), ("*", "multiply"), ("/", "divide"), ("%", "remainder"), ("^", "power")]
CMP = ["==", "!=", "<", "<=", ">", ">="]

PRELUDE = """sh = |v|
  t = try
    map.get v, 'tag'
  catch _
    null
  if t != null then 'obj:{t}' else '{v}'
"""

class Obj:
    """Model of a Koto object: tag, own data, metakeys {key: behaviour}, named meta, base, placement."""
    def __init__(self, tag, keys=None, named=None, base=None, shared=False, data=None):
        self.tag, self.keys, self.named, self.base, self.shared = tag, dict(keys or {}), dict(named or {}), base, shared
        self.data = dict(data or {})
    def has_meta(self):
        return bool(self.keys or self.named or self.base)

def fn_src(tag, key, beh, params):
    """Koto lines of a metakey function body: trace line, then the behaviour."""
    args = "".join(", {sh %s}" % p for p in params)
    trace = "print '%s.%s(%s)'" % (tag, key, args[2:])
    if beh == "ret":
        body = "'%s%s'" % (tag, key)
    elif beh == "unimpl":
        body = "throw koto.unimplemented"
    elif beh == "err":
        body = "throw 'boom'"
    elif beh == "T":
        body = "true"
    elif beh == "F":
        body = "false"
    elif beh == "num":
        body = "3"
    elif beh == "self":
        body = "self"
    else:
        raise ValueError(beh)
    return ["|%s|" % ", ".join(params), "  " + trace, "  " + body]

PARAMS = {"@negate": [], "@size": [], "@display": [], "@debug": [], "@iterator": [], "@next": [], "@index": ["i"], "@index_assign": ["i", "v"],
          "@access": ["k"], "@access_assign": ["k", "v"], "@call": ["a", "b"]}

def obj_src(name, o):
    """Koto statements defining variable `name` as object o."""
    lines = []
    entries = ["tag: '%s'" % o.tag] + ["%s: %s" % (k, v) for k, v in o.data.items()]
    meta = []
    for key, beh in o.keys.items():
        if key == "@type":
            meta.append(["@type: '%s'" % beh]); continue
        if key == "@iterator":
            meta.append(["@iterator: ||", "  print '%s.@iterator()'" % o.tag, "  (7, 8)"] if beh == "ret" else ["@iterator: ||", "  print '%s.@iterator()'" % o.tag, "  throw 'boom'"]); continue
        if key == "@next":
            meta.append(["@next: ||", "  print '%s.@next()'" % o.tag, "  c = map.get(self, 'cnt') + 1", "  map.insert(self, 'cnt', c)", "  if c <= 2 then c * 10 else null"]); continue
        params = PARAMS.get(key, ["o"])
        src = fn_src(o.tag, key, beh, params)
        meta.append(["%s: %s" % (key, src[0])] + src[1:])
    for nk, nv in o.named.items():
        meta.append(["@meta %s: %s" % (nk, nv)])
    if o.base is not None:
        lines += obj_src(name + "_base", o.base)
        meta.append(["@base: %s_base" % name])
    if "@next" in o.keys:
        entries.append("cnt: 0")
    if o.shared and meta:
        lines.append("%s_meta =" % name)
        for m in meta:
            lines += ["  " + l for l in m]
        lines.append("%s = {%s}.with_meta %s_meta" % (name, ", ".join(entries), name))
    else:
        lines.append("%s =" % name)
        lines += ["  " + e for e in entries]
        for m in meta:
            lines += ["  " + l for l in m]
    return lines

class Err(Exception):
    pass

class Model:
    def __init__(self):
        self.t = []
    def sh(self, v):
        if isinstance(v, Obj): return "obj:" + v.tag
        if isinstance(v, PlainMap): return "obj:" + v.tag if v.tag else "{x: 1}"
        return disp(v)
    def call(self, o, key, args):
        self.t.append("%s.%s(%s)" % (o.tag, key, ", ".join(self.sh(a) for a in args)))
        beh = o.keys[key]
        if beh == "ret": return o.tag + key
        if beh == "unimpl": raise Unimpl()
        if beh == "err": raise Err()
        if beh == "T": return True
        if beh == "F": return False
        if beh == "num": return 3
        if beh == "self": return o
        raise ValueError(beh)

class Unimpl(Exception):
    pass

class PlainMap:
    """A map without metamap ({x: 1}) or the result of merging maps with `+`."""
    def __init__(self, tag=None):
        self.tag = tag

def disp(v):
    if v is None: return "null"
    if v is True: return "true"
    if v is False: return "false"
    if isinstance(v, list): return "[" + ", ".join(disp(x) for x in v) + "]"
    if isinstance(v, tuple): return "(" + ", ".join("'%s'" % x if isinstance(x, str) else disp(x) for x in v) + ")"
    return str(v)

OTHERS = {"num": ("1", 1), "str": ("'s'", "s"), "null": ("null", None), "list": ("[1]", [1]), "map": ("{x: 1}", PlainMap())}

def is_map(v):
    return isinstance(v, (Obj, PlainMap))

def arith(m, L, R, op):
    key, rkey = "@" + op, "@r" + op
    if isinstance(L, Obj) and key in L.keys:
        try:
            return m.call(L, key, [R])
        except Unimpl:
            if isinstance(R, Obj) and rkey in R.keys:
                try:
                    return m.call(R, rkey, [L])
                except Unimpl:
                    raise Err()
            raise Err()
    if isinstance(R, Obj) and rkey in R.keys:
        try:
            return m.call(R, rkey, [L])
        except Unimpl:
            raise Err()
    if op == "+" and is_map(L) and is_map(R):
        # maps without an overload are merged (entries of the right operand win)
        rt = R.tag if isinstance(R, Obj) or R.tag else None
        return PlainMap(rt or (L.tag if isinstance(L, Obj) else L.tag))
    raise Err()

def compare(m, L, R, op):
    """L is an object."""
    def run(key):
        try:
            r = m.call(L, key, [R])
        except Unimpl:
            raise Err()
        if not isinstance(r, bool):
            raise Err()
        return r
    k = "@" + op
    if op in ("==", "!="):
        if R is None:
            return op == "!="
        if k in L.keys:
            return run(k)
        if op == "!=" and "@==" in L.keys:
            return not run("@==")
        # structural comparison of the data: only the same tag set compares equal
        eq = is_map(R) and ((isinstance(R, Obj) and R is L) or False)
        if isinstance(R, Obj) and R is not L:
            eq = R.tag == L.tag and R.data == L.data and ("@next" in R.keys) == ("@next" in L.keys)
        return eq if op == "==" else not eq
    if k in L.keys:
        return run(k)
    if op == "<":
        raise Err()
    if op == "<=":
        if "@<" in L.keys and "@==" in L.keys:
            return run("@<") or run("@==")
        raise Err()
    if op == ">":
        if "@<" in L.keys and "@==" in L.keys:
            return not (run("@<") or run("@=="))
        raise Err()
    if op == ">=":
        if "@<" in L.keys:
            return not run("@<")
        raise Err()

def case_lines(setup, expr_lines):
    """try block printing the outcome; expr_lines are statements ending in `print ...`."""
    return setup + ["try"] + ["  " + l for l in expr_lines] + ["catch _", "  print 'E'"]

def build_cases(rng, tier):
    """Yields (label, koto lines, expected trace lines)."""
    behs = ["ret", "unimpl", "err"]
    # ---- arithmetic, both operand orders, two objects
    for op, _ in ARITH:
        key, rkey = "@" + op, "@r" + op
        lhs_variants = [None] + behs            # behaviour of A's @op (None: not defined)
        rhs_variants = [None] + behs            # behaviour of B's @rop
        for la in lhs_variants:
            for shared in (False, True):
                A = Obj("A", {key: la} if la else {"@type": "TA"}, shared=shared)
                for oname, (otext, oval) in OTHERS.items():
                    for order in ("LR", "RL"):
                        if order == "RL":
                            A2 = Obj("A", {rkey: la} if la else {"@type": "TA"}, shared=shared)
                            m = Model()
                            try:
                                r = arith(m, oval, A2, op); m.t.append("= " + m.sh(r))
                            except Err:
                                m.t.append("E")
                            yield ("arith %s %s %s obj(%s)" % (oname, op, "shared" if shared else "own", la), case_lines(obj_src("a", A2), ["r = %s %s a" % (otext, op), "print '= {sh r}'"]), m.t)
                        else:
                            m = Model()
                            try:
                                r = arith(m, A, oval, op); m.t.append("= " + m.sh(r))
                            except Err:
                                m.t.append("E")
                            yield ("arith obj(%s) %s %s" % (la, op, oname), case_lines(obj_src("a", A), ["r = a %s %s" % (op, otext), "print '= {sh r}'"]), m.t)
                for rb in rhs_variants:
                    B = Obj("B", {rkey: rb} if rb else {"@type": "TB"})
                    m = Model()
                    try:
                        r = arith(m, A, B, op); m.t.append("= " + m.sh(r))
                    except Err:
                        m.t.append("E")
                    yield ("arith obj(%s) %s obj(r:%s)" % (la, op, rb), case_lines(obj_src("a", A) + obj_src("b", B), ["r = a %s b" % op, "print '= {sh r}'"]), m.t)
    # ---- compound assignment
    for op, _ in ARITH:
        key = "@%s=" % op
        for beh in (None, "ret", "err", "self"):
            for with_plain in (False, True):
                keys = {}
                if beh: keys[key] = beh
                if with_plain: keys["@" + op] = "ret"
                if not keys: keys = {"@type": "TA"}
                A = Obj("A", keys)
                for oname, (otext, oval) in list(OTHERS.items())[:3]:
                    m = Model()
                    if beh:
                        try:
                            m.call(A, key, [oval]); m.t.append("= obj:A")
                        except (Err, Unimpl):
                            m.t.append("E")
                    else:
                        m.t.append("E")
                    yield ("compound %s (%s, plain %s) %s" % (key, beh, with_plain, oname), case_lines(obj_src("a", A), ["x = a", "x %s= %s" % (op, otext), "print '= {sh x}'"]), m.t)
    # ---- comparisons
    cmp_keys = ["@==", "@!=", "@<", "@<=", "@>", "@>="]
    subsets = [()] + [(k,) for k in cmp_keys] + [("@==", "@<"), ("@==", "@<", "@<="), ("@==", "@!="), ("@<", "@>"), ("@==", "@<", "@>="), ("@==", "@<", "@>")]
    for sub in subsets:
        for bvals in itertools.product(("T", "F"), repeat=len(sub)):
            keys = dict(zip(sub, bvals)) or {"@type": "TA"}
            for err_key in [None] + list(sub)[:1]:
                k2 = dict(keys)
                if err_key: k2[err_key] = "err"
                A = Obj("A", k2)
                B = Obj("B", {"@==": "T", "@<": "T"})
                for op in CMP:
                    for oname, otext, oval in [("num", "1", 1), ("null", "null", None), ("obj", "b", B), ("self", "a", A), ("map", "{x: 1}", PlainMap())]:
                        m = Model()
                        try:
                            r = compare(m, A, oval, op); m.t.append("= " + disp(r))
                        except Err:
                            m.t.append("E")
                        setup = obj_src("a", A) + (obj_src("b", B) if oname == "obj" else [])
                        yield ("cmp %s %s %s keys=%s" % (op, oname, err_key, k2), case_lines(setup, ["r = a %s %s" % (op, otext), "print '= {r}'"]), m.t)
                    # object on the right of a primitive: no overload is consulted
                    m = Model()
                    if op in ("==", "!="):
                        m.t.append("= " + ("false" if op == "==" else "true"))
                    else:
                        m.t.append("E")
                    yield ("cmp num %s obj" % op, case_lines(obj_src("a", A), ["r = 1 %s a" % op, "print '= {r}'"]), m.t)
    # ---- unary / protocol keys
    for beh in (None, "ret", "err"):
        for shared in (False, True):
            def mk(key, b=beh, extra=None):
                keys = {key: b} if b else {"@type": "TA"}
                if extra: keys.update(extra)
                return Obj("A", keys, shared=shared)
            # negate
            A = mk("@negate"); m = Model()
            try:
                if beh: m.t.append("= " + m.sh(m.call(A, "@negate", [])))
                else: raise Err()
            except (Err, Unimpl): m.t.append("E")
            yield ("negate %s" % beh, case_lines(obj_src("a", A), ["r = -a", "print '= {sh r}'"]), m.t)
            # call
            A = mk("@call"); m = Model()
            try:
                if beh: m.t.append("= " + m.sh(m.call(A, "@call", [1, "s"])))
                else: raise Err()
            except (Err, Unimpl): m.t.append("E")
            yield ("call %s" % beh, case_lines(obj_src("a", A), ["r = a(1, 's')", "print '= {sh r}'"]), m.t)
            # index
            A = mk("@index"); m = Model()
            try:
                if beh: m.t.append("= " + m.sh(m.call(A, "@index", [0])))
                else: m.t.append("= ('tag', 'A')")
            except (Err, Unimpl): m.t.append("E")
            yield ("index %s" % beh, case_lines(obj_src("a", A), ["r = a[0]", "print '= {sh r}'"]), m.t)
            # index assign
            A = mk("@index_assign"); m = Model()
            try:
                if beh: m.call(A, "@index_assign", [0, 5]); m.t.append("= done")
                else: raise Err()
            except (Err, Unimpl): m.t.append("E")
            yield ("index_assign %s" % beh, case_lines(obj_src("a", A), ["a[0] = 5", "print '= done'"]), m.t)
            # access: existing data key, missing key
            for field, present in (("tag", True), ("zz", False)):
                A = mk("@access"); m = Model()
                try:
                    if beh: m.t.append("= " + m.sh(m.call(A, "@access", [field])))
                    elif present: m.t.append("= A")
                    else: raise Err()
                except (Err, Unimpl): m.t.append("E")
                yield ("access %s %s" % (field, beh), case_lines(obj_src("a", A), ["r = a.%s" % field, "print '= {sh r}'"]), m.t)
            # access assign
            A = mk("@access_assign"); m = Model()
            try:
                if beh:
                    m.call(A, "@access_assign", ["zz", 5]); m.t.append("= null")
                else:
                    m.t.append("= 5")
            except (Err, Unimpl): m.t.append("E")
            yield ("access_assign %s" % beh, case_lines(obj_src("a", A), ["a.zz = 5", "print '= {map.get a, 'zz'}'"]), m.t)
            # display / debug
            for dk in ("@display", "@debug"):
                A = mk(dk); m = Model()
                for fmt, order in (("{a}", ["@display"]), ("{a:?}", ["@debug", "@display"])):
                    m2 = Model()
                    used = next((k for k in order if k in A.keys and A.keys[k] in ("ret", "err")), None)
                    if used is None:
                        continue  # default rendering of a map is outside the dispatch claim
                    try:
                        m2.t.append("= " + m2.call(A, used, []))
                    except (Err, Unimpl):
                        m2.t.append("E")
                    yield ("display %s %s %s" % (dk, beh, fmt), case_lines(obj_src("a", A), ["r = '%s'" % fmt, "print '= {r}'"]), m2.t)
    # size
    for beh in (None, "num", "err"):
        A = Obj("A", {"@size": beh} if beh else {"@type": "TA"}); m = Model()
        try:
            if beh: m.t.append("= " + disp(m.call(A, "@size", [])))
            else: m.t.append("= 1")
        except (Err, Unimpl): m.t.append("E")
        yield ("size %s" % beh, case_lines(obj_src("a", A), ["r = size a", "print '= {r}'"]), m.t)
    # type
    for has in (False, True):
        A = Obj("A", {"@type": "Foo"} if has else {"@negate": "ret"})
        yield ("type %s" % has, case_lines(obj_src("a", A), ["print '= {koto.type a}'"]), ["= Foo" if has else "= Object"])
    # iteration: @next wins over @iterator
    for keys in ({"@iterator": "ret"}, {"@next": "ret"}, {"@next": "ret", "@iterator": "ret"}, {"@iterator": "err"}, {"@type": "TA"}):
        A = Obj("A", keys)
        t = []
        if "@next" in keys:
            t = ["A.@next()", "o:10", "A.@next()", "o:20", "A.@next()", "done"]
        elif keys.get("@iterator") == "ret":
            t = ["A.@iterator()", "o:7", "o:8", "done"]
        elif keys.get("@iterator") == "err":
            t = ["A.@iterator()", "E"]
        else:
            t = ["o:('tag', 'A')", "done"]
        yield ("iterate %s" % sorted(keys), case_lines(obj_src("a", A), ["for x in a", "  print 'o:{x}'", "print 'done'"]), t)
        if "@next" in keys or keys.get("@iterator") == "ret":
            t2 = ["A.@next()", "A.@next()", "A.@next()", "= (10, 20)"] if "@next" in keys else ["A.@iterator()", "= (7, 8)"]
            yield ("iterate-adaptor %s" % sorted(keys), case_lines(obj_src("a", A), ["r = a.to_tuple()", "print '= {r}'"]), t2)
    # @iterator may return any iterable value: its elements are what every iteration context sees
    RETS = [("list", "[7, 8]", ["7", "8"]), ("tuple", "(7, 8)", ["7", "8"]), ("range", "7..9", ["7", "8"]), ("string", "'hi'", ["h", "i"]), ("map", "{p: 7, q: 8}", ["('p', 7)", "('q', 8)"]),
            ("list-iterator", "[7, 8].iter()", ["7", "8"]), ("adaptor", "(6..8).each |v| v + 1", ["7", "8"]), ("empty-list", "[]", []), ("one-list", "[7]", ["7"]),
            ("nested-object", "inner", ["7", "8"]), ("next-object", "counter()", ["1", "2"]), ("number", "5", None), ("null", "null", None)]
    for rname, rexpr, elems in RETS:
        setup = ["inner =", "  @iterator: ||", "    print 'I.@iterator()'", "    [7, 8]",
                 "counter = ||", "  n: 0", "  @next: ||", "    self.n += 1", "    if self.n < 3 then self.n else null",
                 "a =", "  tag: 'A'", "  @iterator: ||", "    print 'A.@iterator()'", "    " + rexpr]
        pre = ["A.@iterator()"] + (["I.@iterator()"] if rname == "nested-object" else [])
        def padded(k, elems=elems):
            return [elems[i] if i < len(elems) else "null" for i in range(k)]
        uses = [("for", ["for x in a", "  print 'o:{x}'", "print 'done'"], None if elems is None else ["o:" + e for e in elems] + ["done"]),
                ("unpack", ["x, y, z = a", "print '= {x} {y} {z}'"], None if elems is None else ["= " + " ".join(padded(3))]),
                ("to_list", ["print '= {a.to_list()}'"], None if elems is None else ["= [" + ", ".join(elems).replace("h, i", "'h', 'i'") + "]"]),
                ("packed-call", ["g = |args...| size args", "print '= {g a...}'"], None if elems is None else ["= %d" % len(elems)]),
                ("for-in-function", ["g = |v|", "  for x in v", "    print 'o:{x}'", "  'ret'", "print '= {g a}'"], None if elems is None else ["o:" + e for e in elems] + ["= ret"]),
                ("let-unpack", ["let x, y = a", "print '= {x} {y}'"], None if elems is None else ["= " + " ".join(padded(2))])]
        for uname, lines, want in uses:
            yield ("iterator-result %s %s" % (rname, uname), case_lines(setup, lines), pre + want if want is not None else ["A.@iterator()", "E"])
    # unpacking an indexable object (@size + @index): positions counted from the end reach @index as size - k, rest... as a range
    setup = ["a =", "  tag: 'A'", "  @size: || 3", "  @index: |i|", "    print 'A.@index({i})'", "    match i", "      0 then 10", "      1 then 20", "      2 then 30", "      else 'slice'"]
    PATS = [("(..., last)", "last", ["2"], "30"), ("(first, ...)", "first", ["0"], "10"), ("(rest..., y, z)", "(rest, y, z)", ["0..1", "1", "2"], "('slice', 20, 30)"),
            ("(x, rest...)", "(x, rest)", ["0", "1..3"], "(10, 'slice')"), ("(x, y, z)", "(x, y, z)", ["0", "1", "2"], "(10, 20, 30)"), ("(..., y, z)", "(y, z)", ["1", "2"], "(20, 30)"),
            ("(x, y)", "(x, y)", None, None), ("(..., w, x, y, z)", "w", None, None)]
    for pat, res, idxs, shown in PATS:
        want = ["A.@index(%s)" % i for i in idxs] + ["= " + shown] if idxs is not None else None
        yield ("unpack-indexable match %s" % pat, case_lines(setup, ["r = match a", "  %s then %s" % (pat, res), "  else 'none'", "print '= {r}'"]), want if want else ["= none"])
        yield ("unpack-indexable arg %s" % pat, case_lines(setup, ["g = |%s| %s" % (pat, res), "r = g a", "print '= {r}'"]), want if want else ["E"])
    # lookups: data -> @meta -> @base chain (depth 1-3) -> not found; methods see the derived object as self
    for depth in (1, 2, 3):
        for where in range(depth + 1):          # which level holds the entry
            for kind in ("data", "meta"):
                for shared in (False, True):
                    objs = []
                    base = None
                    for lvl in range(depth, -1, -1):
                        tag = "L%d" % lvl
                        data, named = {}, {}
                        if lvl == where:
                            (data if kind == "data" else named)["zz"] = "'found%d'" % lvl
                            (data if kind == "data" else named)["who"] = "|| 'self={map.get self, 'tag'}'"
                        keys = {} if (base is not None or named) else {"@type": "T%d" % lvl}
                        base = Obj(tag, keys, named=named, base=base, data=data, shared=shared and lvl == 0)
                    yield ("lookup depth %d level %d %s" % (depth, where, kind), case_lines(obj_src("a", base), ["print '= {a.zz}'", "print '= {a.who()}'", "print '= {map.contains_key a, 'zz'}'"]),
                           ["= found%d" % where, "= self=L0", "= " + ("true" if where == 0 and kind == "data" else "false")])
                    yield ("lookup missing depth %d" % depth, case_lines(obj_src("a", base), ["print '= {a.nothere}'"]), ["E"])

CMP_KEYS = ["@==", "@!=", "@<", "@<=", "@>", "@>="]

def rand_obj(rng, tag):
    """An object with a random subset of all operator metakeys (plain, @r and compound arithmetic, comparisons, negate), random behaviours, own or shared metamap."""
    keys = {}
    dens = rng.choice((0.15, 0.4, 0.8))
    for op, _ in ARITH:
        if rng.random() < dens: keys["@" + op] = rng.choice(("ret", "unimpl", "err"))
        if rng.random() < dens: keys["@r" + op] = rng.choice(("ret", "unimpl", "err"))
        if rng.random() < dens / 2: keys["@%s=" % op] = rng.choice(("ret", "err", "self"))
    for k in CMP_KEYS:
        if rng.random() < dens: keys[k] = rng.choice(("T", "F", "T", "F", "err"))
    if rng.random() < 0.3: keys["@negate"] = rng.choice(("ret", "err"))
    if not keys or rng.random() < 0.3: keys["@type"] = "T" + tag
    return Obj(tag, keys, shared=rng.random() < 0.3)

def random_cases(rng, n):
    """Objects carrying many metakeys at once (the grid above varies one operator's keys at a time): the key that runs must be
    the one the operator names, whatever else is defined next to it, on either operand."""
    others = list(OTHERS.items())
    for _ in range(n):
        A, B = rand_obj(rng, "A"), rand_obj(rng, "B")
        setup_a, setup_ab = obj_src("a", A), obj_src("a", A) + obj_src("b", B)
        kind = rng.choice(("arith", "arith", "cmp", "cmp", "compound", "negate"))
        m = Model()
        if kind == "arith":
            op = rng.choice(ARITH)[0]
            form = rng.choice(("A-o", "o-A", "A-B", "B-A"))
            oname, (otext, oval) = rng.choice(others)
            L, R, lt, rt, setup = {"A-o": (A, oval, "a", otext, setup_a), "o-A": (oval, A, otext, "a", setup_a), "A-B": (A, B, "a", "b", setup_ab), "B-A": (B, A, "b", "a", setup_ab)}[form]
            try:
                r = arith(m, L, R, op); m.t.append("= " + m.sh(r))
            except Err:
                m.t.append("E")
            yield ("rand-arith %s %s %s" % (form, op, oname), case_lines(setup, ["r = %s %s %s" % (lt, op, rt), "print '= {sh r}'"]), m.t)
        elif kind == "cmp":
            op = rng.choice(CMP)
            form = rng.choice(("A-o", "A-B", "A-A", "num-A"))
            if form == "num-A":
                m.t.append("= " + ("false" if op == "==" else "true") if op in ("==", "!=") else "E")
                yield ("rand-cmp num %s A" % op, case_lines(setup_a, ["r = 1 %s a" % op, "print '= {r}'"]), m.t)
                continue
            oname, otext, oval = rng.choice([("num", "1", 1), ("null", "null", None), ("map", "{x: 1}", PlainMap()), ("str", "'s'", "s")])
            R, rt, setup = {"A-o": (oval, otext, setup_a), "A-B": (B, "b", setup_ab), "A-A": (A, "a", setup_a)}[form]
            try:
                r = compare(m, A, R, op); m.t.append("= " + disp(r))
            except Err:
                m.t.append("E")
            yield ("rand-cmp %s %s %s" % (form, op, oname), case_lines(setup, ["r = a %s %s" % (op, rt), "print '= {r}'"]), m.t)
        elif kind == "compound":
            op = rng.choice(ARITH)[0]
            key = "@%s=" % op
            oname, (otext, oval) = rng.choice(others[:3])
            if key in A.keys:
                try:
                    m.call(A, key, [oval]); m.t.append("= obj:A")
                except (Err, Unimpl):
                    m.t.append("E")
            else:
                m.t.append("E")
            yield ("rand-compound %s %s" % (key, oname), case_lines(setup_a, ["x = a", "x %s= %s" % (op, otext), "print '= {sh x}'"]), m.t)
        else:
            try:
                if "@negate" in A.keys: m.t.append("= " + m.sh(m.call(A, "@negate", [])))
                else: raise Err()
            except (Err, Unimpl): m.t.append("E")
            yield ("rand-negate", case_lines(setup_a, ["r = -a", "print '= {sh r}'"]), m.t)

RANDOM_CASES = {"quick": 3000, "thorough": 120000}

LOOP_OBJ = """cnt = {n: 0}
hit = |v|
  cnt.n += 1
  v
a =
  tag: 'A'
  @+: |o| hit 1
  @-: |o| throw koto.unimplemented
  @*: |o| throw 'boom'
  @+=: |o| hit self
  @==: |o| hit false
  @<: |o| hit true
  @negate: || hit 2
  @index: |i| hit 3
  @index_assign: |i, v| hit null
  @call: |x| hit 4
  @size: || hit 5
  @display: || hit 'shown'
  @iterator: || hit (7, 8)
b =
  tag: 'B'
  @r-: |o| hit 6
  @r+: |o| hit 9
"""

def loop_cases():
    """Every operation class 400 times inside one frame (function body and top level): the per-call registers of
    overloads must not pile up, results and call counts stay exact."""
    ops = [("add", "r = a + 1", "1", 1), ("radd", "r = 1 + b", "9", 1), ("unimpl-rhs", "r = a - b", "6", 1), ("unimpl-error", "r = try\n  a - 1\ncatch _\n  'E'", "E", 0),
           ("throw", "r = try\n  a * 1\ncatch _\n  'E'", "E", 0), ("compound", "r = a\nr += 1\nr = 'same'", "same", 1), ("eq", "r = a == 1", "false", 1), ("ne", "r = a != 1", "true", 1),
           ("lt", "r = a < 1", "true", 1), ("le", "r = a <= 1", "true", 1), ("gt", "r = a > 1", "false", 1), ("ge", "r = a >= 1", "false", 1), ("negate", "r = -a", "2", 1),
           ("index", "r = a[0]", "3", 1), ("index-assign", "a[0] = 1\nr = 'done'", "done", 1), ("call", "r = a(1)", "4", 1), ("size", "r = size a", "5", 1),
           ("display", "r = '{a}'", "shown", 1), ("iterate", "r = 0\nfor v in a\n  r += v", "15", 1), ("mixed", "r = (a + 1) + (1 + b) + (-a) + (a - b)", "18", 4)]
    for name, body, want, calls in ops:
        for ctx in ("function", "top"):
            ind = "    " if ctx == "function" else "  "
            loop = ["for i_ in 0..400"] + [ind[2:] + "  " + l if False else "  " + l for l in body.split("\n")]
            if ctx == "function":
                lines = LOOP_OBJ.split("\n")[:-1] + ["f_ = ||", "  r = null"] + ["  " + l for l in loop] + ["  r", "try", "  print '= {f_()} {cnt.n}'", "catch e_", "  print 'E'"]
            else:
                lines = LOOP_OBJ.split("\n")[:-1] + ["r = null", "try"] + ["  " + l for l in loop] + ["  print '= {r} {cnt.n}'", "catch e_", "  print 'E'"]
            yield ("loop %s %s" % (name, ctx), lines, ["= %s %d" % (want, calls * 400)])

def render(cases):
    out, want = [PRELUDE], []
    for k, (label, lines, exp) in enumerate(cases):
        out.append("print '#%d'" % k)
        out += lines
        want.append(exp)
    return "\n".join(out) + "\n", want

def split(stdout):
    segs, cur = {}, None
    lines = stdout.split("\n")
    if lines and lines[-1] == "": lines.pop()
    for line in lines:
        if line.startswith("#") and line[1:].isdigit():
            cur = int(line[1:]); segs[cur] = []
        elif cur is not None:
            segs[cur].append(line)
    return segs

def _shard(shard, n, tier, seed):
    w = Worker()
    rep = {"violations": [], "cases": 0, "classes": {}, "samples": [], "trace_lines": 0}
    cases = [c for i, c in enumerate(list(build_cases(random.Random(seed), tier)) + list(loop_cases()) + list(random_cases(rng_for(seed, 'c17-random'), RANDOM_CASES.get(tier, 3000)))) if i % n == shard]
    for i in range(0, len(cases), 20):
        batch = cases[i:i + 20]
        text, want = render(batch)
        r = w.exec(text, timeout=60, limit_ms=20000)
        if r.get("panic"):
            rep["violations"].append({"key": panic_key(r), "summary": "panic in the dispatch grid: %s" % r["panic"].get("message", "")[:100], "case": {"src": text}})
            continue
        got = split(r.get("stdout", ""))
        for k, (label, lines, exp) in enumerate(batch):
            rep["cases"] += 1
            cls = label.split(" ")[0]
            rep["classes"][cls] = rep["classes"].get(cls, 0) + 1
            rep["trace_lines"] += len(exp)
            if got.get(k) != exp:
                single, _ = render([(label, lines, exp)])
                rep["violations"].append({"key": "dispatch:%s" % sha(label + "\n".join(lines)), "summary": "metakey dispatch differs from the model (%s): real %r, model %r" % (label[:80], got.get(k), exp), "case": {"src": single, "expected": exp, "got": got.get(k)}})
        if not rep["samples"]:
            rep["samples"].append({"case": batch[0][0], "src": "\n".join(batch[0][1]), "expected": batch[0][2]})
    w.close()
    return rep

def run(tier, seed):
    chk = Check(PID, tier, seed)
    if not chk.build("rc"):
        return chk.finish({"evaluations": 0, "distinct_nontrivial": 0, "rule": "", "samples": []})
    cov = {"evaluations": 0, "distinct_nontrivial": 0, "samples": [], "streams": {}, "trace_lines_compared": 0}
    classes = {}
    for s in fan_out(_shard, tier=tier, seed=seed):
        chk.merge_shard(s)
        if "harness_error" in s:
            continue
        cov["evaluations"] += s["cases"]; cov["distinct_nontrivial"] += s["cases"]; cov["trace_lines_compared"] += s["trace_lines"]
        for k, v in s["classes"].items():
            classes[k] = classes.get(k, 0) + v
        if s["samples"] and not cov["samples"]:
            cov["samples"] = s["samples"]
    cov["streams"]["koto-objects"] = classes
    from . import c17host
    c17host.run_host(chk, cov, tier, seed)
    from . import c17api
    c17api.run_api(chk, cov)
    from .modelrun import replay_witnesses
    w = Worker()
    cov["witnesses_replayed"] = replay_witnesses(chk, w)
    w.close()
    cov["rule"] = ("koto objects: complete grid - 6 arithmetic operators x {@op absent / returns / unimplemented / throws} x {own, with_meta} x 5 primitive operands in both orders and x second objects with @r<op> "
                   "{absent / returns / unimplemented / throws}; 6 compound assignments x {absent / returns / throws / returns self} x {with, without the plain operator}; 6 comparisons x 13 key subsets x "
                   "truth values x a throwing key x {number, null, object, itself, plain map} on the right and a number on the left; negate / call / index / index-assign / access / access-assign / display / "
                   "debug / size / type / iteration (@next before @iterator, adaptor use) each absent / returning / throwing and own / shared; lookups through data, @meta and @base chains of depth 1-3 with "
                   "self bound to the derived object; random stream (3 000 quick / 120 000 thorough): two objects each carrying a random subset of all 18 arithmetic keys (@op, @r<op>, @<op>=), the 6 comparison keys and @negate with random behaviours, own or shared, one random operation in a random operand arrangement (object-primitive, primitive-object, object-object both ways, object with itself) - the key that runs must be the one the operator names whatever is defined next to it. host objects: see streams.host-objects. Every case prints the metakey calls with their operands and the outcome; the whole trace is compared.")
    return chk.finish(cov, assumptions=["operator expressions are used (assigned) - statements whose value is unused do not run the operator at all (finding F-O1, replayed as a witness)",
                                         "guide-silent cells are pinned to the pinned implementation: maps without @+ are merged by `+`, comparisons with null never consult @== / @!=, compound assignment does not fall back to the plain operator, operators are not inherited through @base"])
