//! Panic capture (DESIGN.md 3.4.6)

use std::backtrace::Backtrace;
use std::cell::RefCell;
use std::panic;

#[derive(Clone, Debug, Default)]
pub struct PanicInfo {
    pub message: String,
    /// file:line:col of the panic location
    pub location: String,
    /// crate-relative file of the first frame under /repo (from the location or the backtrace)
    pub repo_file: String,
    /// function name of the first frame under /repo
    pub repo_function: String,
    /// (repo_file, repo_function, message with digits replaced)
    pub signature: String,
    pub backtrace_head: Vec<String>,
}

thread_local! {
    static LAST_PANIC: RefCell<Option<PanicInfo>> = const { RefCell::new(None) };
}

fn normalise_message(m: &str) -> String {
    // mask input-dependent parts: digits, quoted and back-quoted excerpts
    let mut masked = String::new();
    let mut chars = m.chars().peekable();
    while let Some(c) = chars.next() {
        if c == '`' || c == '\'' || c == '"' {
            let mut found_end = false;
            let mut skipped = String::new();
            for d in chars.by_ref() {
                if d == c {
                    found_end = true;
                    break;
                }
                skipped.push(d);
            }
            masked.push(c);
            masked.push('_');
            if found_end {
                masked.push(c);
            }
        } else {
            masked.push(c);
        }
    }
    let mut out = String::new();
    let mut last_digit = false;
    for c in masked.chars() {
        if c.is_ascii_digit() {
            if !last_digit {
                out.push('#');
            }
            last_digit = true;
        } else {
            last_digit = false;
            out.push(c);
        }
    }
    let out = out.replace('\n', " ");
    // anything after the first back-quoted excerpt is input text
    let out = match out.find('`') {
        Some(i) => out[..i].to_string(),
        None => out,
    };
    out.chars().take(160).collect()
}

/// Finds the name of the core library function whose definition contains the given line, by
/// scanning backwards for `add_fn("name"` (robust against line shifts, unlike a line number)
fn core_lib_entry(rel_file: &str, line: usize) -> Option<String> {
    let text = std::fs::read_to_string(format!("/repo/{rel_file}")).ok()?;
    let lines: Vec<&str> = text.lines().collect();
    let module = rel_file
        .rsplit('/')
        .next()
        .unwrap_or("")
        .trim_end_matches(".rs")
        .to_string();
    let mut i = line.min(lines.len());
    while i > 0 {
        i -= 1;
        let l = lines[i];
        if let Some(p) = l.find("add_fn(\"") {
            let rest = &l[p + 8..];
            if let Some(q) = rest.find('"') {
                return Some(format!("{module}.{}", &rest[..q]));
            }
        }
        let t = l.trim_start();
        if t.starts_with("fn ") || t.starts_with("pub fn ") || t.starts_with("pub(crate) fn ") {
            let name: String = t
                .split("fn ")
                .nth(1)
                .unwrap_or("")
                .chars()
                .take_while(|c| c.is_alphanumeric() || *c == '_')
                .collect();
            return Some(format!("{module}::{name}"));
        }
    }
    None
}

fn strip_repo(path: &str) -> Option<String> {
    path.find("/repo/").map(|i| path[i + 6..].to_string())
}

pub fn install() {
    panic::set_hook(Box::new(|info| {
        let message = if let Some(s) = info.payload().downcast_ref::<&str>() {
            s.to_string()
        } else if let Some(s) = info.payload().downcast_ref::<String>() {
            s.clone()
        } else {
            "<non-string panic payload>".to_string()
        };
        let (loc_file, location) = match info.location() {
            Some(l) => (
                l.file().to_string(),
                format!("{}:{}:{}", l.file(), l.line(), l.column()),
            ),
            None => (String::new(), String::new()),
        };

        let bt = Backtrace::force_capture().to_string();
        // Parse the backtrace: lines alternate "  N: function" and "      at file:line:col"
        let mut frames: Vec<(String, String)> = Vec::new();
        let mut current_fn = String::new();
        for line in bt.lines() {
            let t = line.trim_start();
            if let Some(rest) = t.strip_prefix("at ") {
                frames.push((current_fn.clone(), rest.to_string()));
            } else if let Some(pos) = t.find(": ") {
                if t[..pos].chars().all(|c| c.is_ascii_digit()) {
                    current_fn = t[pos + 2..].to_string();
                }
            }
        }
        let mut repo_file = String::new();
        let mut repo_function = String::new();
        let mut entry = String::new();
        let mut outer_entry = String::new();
        for (f, at) in &frames {
            if let Some(rel) = strip_repo(at) {
                let mut parts = rel.rsplitn(3, ':');
                let _col = parts.next();
                let line: usize = parts.next().and_then(|l| l.parse().ok()).unwrap_or(0);
                let file = parts.next().unwrap_or("").to_string();
                // crates/memory only holds borrow/pointer wrappers: the site of interest is the caller
                if repo_file.is_empty() && !file.starts_with("crates/memory/") {
                    repo_file = file.clone();
                    repo_function = f.clone();
                }
                if file.contains("/core_lib/") {
                    if let Some(e) = core_lib_entry(&file, line) {
                        if entry.is_empty() {
                            entry = e;
                        } else {
                            outer_entry = e;
                        }
                    }
                }
            }
        }
        if repo_file.is_empty() {
            if let Some(rel) = strip_repo(&loc_file) {
                repo_file = rel;
            }
        }
        // strip generic hashes and generic arguments from the function name
        if let Some(i) = repo_function.rfind("::h") {
            if repo_function[i + 3..].chars().all(|c| c.is_ascii_hexdigit()) {
                repo_function.truncate(i);
            }
        }
        if let Some(i) = repo_function.find('<') {
            repo_function.truncate(i);
        }
        if !outer_entry.is_empty() && outer_entry != entry {
            entry = format!("{entry}<{outer_entry}");
        }
        // runtime functions that hold a container borrow while calling back into the VM
        const MARKERS: &[&str] = &[
            "display",
            "compare_value_ranges",
            "compare_value_maps",
            "compare_values",
            "sort_values",
            "sort_by_key",
        ];
        let mut markers: Vec<&str> = Vec::new();
        for (f, at) in &frames {
            if at.contains("/repo/") {
                let name = f.rsplit("::").next().unwrap_or(f);
                let name = name.split('<').next().unwrap_or(name);
                for m in MARKERS {
                    if name == *m && !markers.contains(m) {
                        markers.push(m);
                    }
                }
            }
        }
        if !markers.is_empty() {
            entry = format!("{entry}~{}", markers.join("+"));
        }
        let signature = format!(
            "{}|{}|{}|{}",
            repo_file,
            repo_function,
            entry,
            normalise_message(&message)
        );
        let backtrace_head = frames
            .iter()
            .filter(|(_, at)| at.contains("/repo/") || at.contains("/verif/"))
            .take(8)
            .map(|(f, at)| format!("{f} @ {at}"))
            .collect();
        LAST_PANIC.with(|p| {
            *p.borrow_mut() = Some(PanicInfo {
                message,
                location,
                repo_file,
                repo_function,
                signature,
                backtrace_head,
            })
        });
    }));
}

pub fn take() -> Option<PanicInfo> {
    LAST_PANIC.with(|p| p.borrow_mut().take())
}

/// Runs f, converting a panic into Err(PanicInfo)
pub fn guarded<T>(f: impl FnOnce() -> T) -> Result<T, PanicInfo> {
    let _ = take();
    match panic::catch_unwind(panic::AssertUnwindSafe(f)) {
        Ok(v) => Ok(v),
        Err(_) => Err(take().unwrap_or_default()),
    }
}

/// The allocation-exhaustion class that the properties exempt
pub fn is_excluded(p: &PanicInfo) -> bool {
    p.message == "capacity overflow"
        || p.message.starts_with("memory allocation of")
        || p.message.contains("capacity overflow")
}

pub fn to_json(p: &PanicInfo) -> serde_json::Value {
    serde_json::json!({
        "message": p.message,
        "location": p.location,
        "file": p.repo_file,
        "function": p.repo_function,
        "signature": p.signature,
        "excluded": is_excluded(p),
        "backtrace": p.backtrace_head,
    })
}
