"""Boundary-value pool (DESIGN.md 3.3.5) as Koto source expressions. PRELUDE defines the helpers
the expressions refer to; every script that uses the pool starts with it."""

PRELUDE = """\
it_fresh = || (1..=3).iter()
it_done = ||
  i = (0..1).iter()
  i.next()
  i
gen = ||
  yield 1
  yield 2
obj = {@type: 'Obj', @display: || 'obj', @+: |o| 1, @size: || 2, @index: |i| i, @call: || 7}
L = [1, 2, 3]
M = {a: 1, b: 2}
"""

POOL = [
    "null", "true", "false", "0", "1", "-1", "2", "64", "-64", "9223372036854775807",
    "(-9223372036854775807 - 1)", "0.5", "-0.0", "1e308", "(1 / 0)", "(-1 / 0)", "(0 / 0)",
    "''", "'a'", "'é€😀'", "'e\\u{301}'", '"a\\r\\nb"', "[]", "[1, 2]", "()", "(1, 2)", "((1,),)",
    "{}", "{a: 1}", "(0..0)", "(1..=3)", "(3..1)", "(..2)", "(..)", "(|x| x)", "(|x| throw 'e')",
    "it_fresh()", "it_done()", "gen()", "obj", "L", "M", "'xaé€y'[1..6]", "(0, 1, 2, 3)[1..3]",
    "'a,b'",
]
# only used at arity 1 (every native consumer loops forever on it: documented exclusion)
UNBOUNDED = ["(2..)"]

SUBPOOL3 = ["null", "0", "1", "-1", "9223372036854775807", "0.5", "'a'", "'é€😀'", "[1, 2]", "(1, 2)",
            "{a: 1}", "(1..=3)", "(|x| x)", "L"]

DENY = {"os.command", "io.stdin", "os.start_timer", "io.temp_dir"}
