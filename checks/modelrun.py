"""Shared model-vs-real comparison for the kgen-based checks."""
import random
from kvmodel.interp import Interp
from kvmodel.values import ModelLimit
from kvmodel.printer import Printer, TRACE_PRELUDE

def model_outcome(prog, budget=50000):
    it = Interp(budget)
    try:
        r = it.run(prog)
        r["hint_failures"] = getattr(it, "hint_failures", 0)     # raised type checks, also those a try block caught
        return r
    except ModelLimit as e:
        return {"kind": "limit", "why": str(e)}
    except RecursionError:
        return {"kind": "limit", "why": "recursion"}

def real_view(r):
    """Reduces an exec response to what is compared: (class, stdout, result|error head)."""
    o = r.get("outcome")
    if o == "ok":
        return ("ok", r.get("stdout", ""), r.get("result"))
    if o == "runtime_error":
        return ("error", r.get("stdout", ""), r.get("error"))
    return (o, r.get("stdout", ""), r.get("error") or (r.get("panic") or {}).get("signature"))

import re
_FLOAT = re.compile(r"-?\d+\.\d+")
def canon_floats(text):
    """Both sides print shortest round-trip digits, but Rust and Python break ties in the last digit differently
    (an artefact of the two float printers, not of koto): float tokens are compared by value."""
    if text is None:
        return None
    def fix(m):
        tok = m.group(0)
        if len(tok) < 15:
            return tok
        try:
            return repr(float(tok))
        except ValueError:
            return tok
    return _FLOAT.sub(fix, text)

def agrees(model, r):
    """None when the real execution matches the model outcome, else a short reason."""
    cls, stdout, val = real_view(r)
    want_out = canon_floats("".join(l + "\n" for l in model["out"]))
    stdout = canon_floats(stdout)
    if cls == "ok":
        val = canon_floats(val)
    model = dict(model)
    if model.get("value") is not None and model["kind"] == "ok":
        model["value"] = canon_floats(model["value"])
    if model["kind"] == "ok":
        if cls != "ok": return "model: ok, real: %s (%s)" % (cls, str(val)[:80])
        if stdout != want_out: return "stdout differs"
        if val != model["value"]: return "result differs: model %r real %r" % (model["value"], val)
        return None
    if model["kind"] == "thrown":
        if cls != "error": return "model: thrown, real: %s" % cls
        if stdout != want_out: return "stdout differs before the throw"
        if model["value"] is not None and val != model["value"]: return "thrown message differs: model %r real %r" % (model["value"], val)
        return None
    if model["kind"] == "error":
        if cls != "error": return "model: runtime error (%s), real: %s %r" % (model.get("tag"), cls, str(val)[:60])
        if stdout != want_out: return "stdout differs before the error"
        return None
    return None

def indent(text, n=1):
    return "".join(("  " * n + l if l.strip() else l) + "\n" for l in text.split("\n")[:-1])

def contexts(body_text, prelude=TRACE_PRELUDE):
    """The same program in surroundings that the property declares irrelevant."""
    yield "top", prelude + body_text
    yield "fn", prelude + "w = ||\n" + indent(body_text) + "w()\n"
    yield "locals60", prelude + "".join("d%d = %d\n" % (i, i) for i in range(60)) + body_text


def replay_witnesses(chk, worker):
    """Replays the witness of every finding recorded for this property: a witness that still fails is reported under
    the exact key witness:<id> (and therefore printed as KNOWN-FINDING); one that passes is silent."""
    n = 0
    for f in chk.known:
        wit = f.get("witness") or {}
        if "src" not in wit or "expect_stdout" not in wit:
            continue
        n += 1
        r = worker.exec(wit["src"], timeout=20, limit_ms=4000)
        got = r.get("stdout", "") if r.get("outcome") in ("ok", "runtime_error") else None
        if r.get("outcome") != wit.get("expect_outcome", "ok") or got != wit["expect_stdout"]:
            chk.violation("witness:" + f["id"], "witness of %s still fails: expected %r, got %s %r" % (f["id"], wit["expect_stdout"], r.get("outcome"), got),
                          {"src": wit["src"], "expected": wit["expect_stdout"], "real": real_view(r)})
    return n
