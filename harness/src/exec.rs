//! Script execution with all passenger monitors attached

use crate::{chunkcheck, monitor, panics};
use koto::prelude::*;
use koto_runtime::{KotoFile, KotoRead, KotoWrite, PtrMut};
use serde_json::{Value, json};
use std::time::{Duration, Instant};

#[derive(Clone, Debug)]
pub struct OutputCapture {
    output: PtrMut<String>,
}

impl Default for OutputCapture {
    fn default() -> Self {
        Self {
            output: make_ptr_mut!(String::default()),
        }
    }
}

impl OutputCapture {
    pub fn take(&self) -> String {
        std::mem::take(&mut *self.output.borrow_mut())
    }
}

impl KotoFile for OutputCapture {
    fn id(&self) -> KString {
        "_output_capture_".into()
    }
}

impl KotoRead for OutputCapture {}
impl KotoWrite for OutputCapture {
    fn write(&self, bytes: &[u8]) -> koto_runtime::Result<()> {
        let s = String::from_utf8_lossy(bytes);
        self.output.borrow_mut().push_str(&s);
        Ok(())
    }

    fn write_line(&self, output: &str) -> koto_runtime::Result<()> {
        let mut unlocked = self.output.borrow_mut();
        unlocked.push_str(output);
        unlocked.push('\n');
        Ok(())
    }

    fn flush(&self) -> koto_runtime::Result<()> {
        Ok(())
    }
}

pub fn json_to_kvalue(v: &Value) -> KValue {
    match v {
        Value::Null => KValue::Null,
        Value::Bool(b) => KValue::Bool(*b),
        Value::Number(n) => {
            if let Some(i) = n.as_i64() {
                KValue::Number(i.into())
            } else {
                KValue::Number(n.as_f64().unwrap_or(0.0).into())
            }
        }
        Value::String(s) => KValue::Str(s.as_str().into()),
        Value::Array(a) => KValue::List(KList::from_slice(
            &a.iter().map(json_to_kvalue).collect::<Vec<_>>(),
        )),
        Value::Object(o) => {
            if let Some(Value::Array(a)) = o.get("$tuple") {
                return KValue::Tuple(a.iter().map(json_to_kvalue).collect::<Vec<_>>().into());
            }
            let map = KMap::new();
            for (k, v) in o {
                map.insert(k.as_str(), json_to_kvalue(v));
            }
            KValue::Map(map)
        }
    }
}

#[derive(Clone, Debug)]
pub struct ExecRequest {
    pub src: String,
    pub type_checks: bool,
    pub export_top: bool,
    pub run_tests: bool,
    pub run_import_tests: bool,
    pub limit_ms: u64,
    pub path: Option<String>,
    pub inject: Option<Value>,
    pub want_exports: bool,
    pub chunk_check: bool,
    pub compile_only: bool,
    pub determinism: u32,
}

impl ExecRequest {
    pub fn new(src: &str) -> Self {
        Self {
            src: src.to_string(),
            type_checks: true,
            export_top: false,
            run_tests: false,
            run_import_tests: true,
            limit_ms: 5000,
            path: None,
            inject: None,
            want_exports: false,
            chunk_check: true,
            compile_only: false,
            determinism: 0,
        }
    }

    pub fn from_json(v: &Value) -> Self {
        let mut r = Self::new(v["src"].as_str().unwrap_or(""));
        let b = |k: &str, d: bool| v.get(k).and_then(|x| x.as_bool()).unwrap_or(d);
        r.type_checks = b("type_checks", true);
        r.export_top = b("export_top", false);
        r.run_tests = b("run_tests", false);
        r.run_import_tests = b("run_import_tests", true);
        r.want_exports = b("want_exports", false);
        r.chunk_check = b("chunk_check", true);
        r.compile_only = b("compile_only", false);
        r.limit_ms = v.get("limit_ms").and_then(|x| x.as_u64()).unwrap_or(5000);
        r.determinism = v.get("determinism").and_then(|x| x.as_u64()).unwrap_or(0) as u32;
        r.path = v.get("path").and_then(|x| x.as_str()).map(|s| s.to_string());
        r.inject = v.get("inject").cloned();
        r
    }
}

pub fn make_koto(req: &ExecRequest) -> (Koto, OutputCapture) {
    let out = OutputCapture::default();
    let settings = KotoSettings {
        run_tests: req.run_tests,
        vm_settings: KotoVmSettings {
            run_import_tests: req.run_import_tests,
            execution_limit: if req.limit_ms > 0 {
                Some(Duration::from_millis(req.limit_ms))
            } else {
                None
            },
            stdout: make_ptr!(out.clone()),
            stderr: make_ptr!(out.clone()),
            ..Default::default()
        },
    };
    let koto = Koto::with_settings(settings);
    crate::probe::install(koto.prelude());
    if let Some(Value::Object(o)) = &req.inject {
        for (k, v) in o {
            koto.prelude().insert(k.as_str(), json_to_kvalue(v));
        }
    }
    (koto, out)
}

pub fn compile_args<'a>(req: &'a ExecRequest) -> CompileArgs<'a> {
    let mut args = CompileArgs::new(&req.src)
        .enable_type_checks(req.type_checks)
        .export_top_level_ids(req.export_top);
    if let Some(p) = &req.path {
        args = args.script_path(p.as_str());
    }
    args
}

/// Splits a rendered error into (message, trace part)
pub fn clip(text: &str, max: usize) -> &str {
    if text.len() <= max {
        return text;
    }
    let mut end = max;
    while !text.is_char_boundary(end) {
        end -= 1;
    }
    &text[..end]
}

pub fn split_error(full: &str) -> (String, String) {
    match full.find("\n--- ") {
        Some(i) => (full[..i].to_string(), full[i..].to_string()),
        None => (full.to_string(), String::new()),
    }
}

pub fn faults_json(f: &[(String, String)]) -> Value {
    Value::Array(
        f.iter()
            .map(|(r, d)| json!({"rule": r, "detail": d}))
            .collect(),
    )
}

pub fn state_json(s: &koto_runtime::verif::VmState) -> Value {
    json!({
        "registers": s.registers_len,
        "register_base": s.register_base,
        "min_frame_registers": s.min_frame_registers,
        "call_stack": s.call_stack_len,
        "sequence_builders": s.sequence_builders_len,
        "string_builders": s.string_builders_len,
        "execution_state": s.execution_state,
        "catch_stack": s.catch_stack_total,
        "module_placeholders": s.module_cache_placeholders,
    })
}

/// Compares a state with the quiescent state, returning the differing fields
pub fn residue(s: &koto_runtime::verif::VmState, q: &koto_runtime::verif::VmState) -> Vec<String> {
    let mut r = Vec::new();
    macro_rules! cmp {
        ($f:ident) => {
            if s.$f != q.$f {
                r.push(format!("{}: {} (quiescent {})", stringify!($f), s.$f, q.$f));
            }
        };
    }
    cmp!(registers_len);
    cmp!(register_base);
    cmp!(min_frame_registers);
    cmp!(call_stack_len);
    cmp!(sequence_builders_len);
    cmp!(string_builders_len);
    cmp!(execution_state);
    cmp!(catch_stack_total);
    cmp!(module_cache_placeholders);
    r
}

thread_local! {
    static QUIESCENT: std::cell::RefCell<Option<koto_runtime::verif::VmState>> = const { std::cell::RefCell::new(None) };
}

/// The state of a fresh instance after one trivial successful run (calibrated on this build)
pub fn quiescent_state() -> koto_runtime::verif::VmState {
    QUIESCENT.with(|q| {
        if let Some(s) = q.borrow().as_ref() {
            return s.clone();
        }
        let req = ExecRequest::new("x = 1\nx + 1");
        let (mut koto, _out) = make_koto(&req);
        let _ = koto.compile_and_run(compile_args(&req));
        let s = koto.verif_vm().verif_state();
        *q.borrow_mut() = Some(s.clone());
        s
    })
}

pub fn exec(req: &ExecRequest) -> Value {
    let t0 = Instant::now();
    let quiescent = quiescent_state();
    let (mut koto, out) = make_koto(req);
    let _ = monitor::take_run();
    let mut resp = serde_json::Map::new();

    // compile
    let compiled = panics::guarded(|| koto.compile(compile_args(req)));
    let chunk = match compiled {
        Err(p) => {
            resp.insert("outcome".into(), json!("panic"));
            resp.insert("phase".into(), json!("compile"));
            resp.insert("panic".into(), panics::to_json(&p));
            return Value::Object(resp);
        }
        Ok(Err(e)) => {
            let shown = panics::guarded(|| e.to_string());
            match shown {
                Ok(s) => {
                    resp.insert("outcome".into(), json!("compile_error"));
                    resp.insert("error".into(), json!(s));
                    resp.insert("indent_error".into(), json!(e.is_indentation_error()));
                }
                Err(p) => {
                    resp.insert("outcome".into(), json!("panic"));
                    resp.insert("phase".into(), json!("compile_error_display"));
                    resp.insert("panic".into(), panics::to_json(&p));
                    return Value::Object(resp);
                }
            }
            // typed error for the span
            let typed = panics::guarded(|| {
                koto.verif_vm().loader().borrow_mut().compile_script(
                    &req.src,
                    req.path.as_deref().map(|p| p.into()),
                    CompilerSettings {
                        enable_type_checks: req.type_checks,
                        export_top_level_ids: req.export_top,
                        ..Default::default()
                    },
                )
            });
            if let Ok(Err(e)) = typed {
                if let Some(source) = &e.source {
                    let s = source.span;
                    resp.insert(
                        "span".into(),
                        json!([s.start.line, s.start.column, s.end.line, s.end.column]),
                    );
                }
            }
            return Value::Object(resp);
        }
        Ok(Ok(chunk)) => chunk,
    };

    if req.chunk_check {
        match panics::guarded(|| chunkcheck::check_chunk(&chunk)) {
            Ok(report) => {
                resp.insert(
                    "chunk".into(),
                    json!({
                        "faults": faults_json(&report.faults),
                        "bodies": report.bodies,
                        "instructions": report.instructions,
                        "bytes": chunk.bytes.len(),
                    }),
                );
            }
            Err(p) => {
                resp.insert(
                    "chunk".into(),
                    json!({"faults": [{"rule": "checker-panic", "detail": p.signature}], "bodies": 0, "instructions": 0}),
                );
            }
        }
    }

    if req.determinism > 0 {
        let mut diffs = 0;
        for _ in 0..req.determinism {
            let again = panics::guarded(|| {
                koto_bytecode::Compiler::compile(
                    &req.src,
                    req.path.as_deref().map(|p| p.into()),
                    CompilerSettings {
                        enable_type_checks: req.type_checks,
                        export_top_level_ids: req.export_top,
                        ..Default::default()
                    },
                )
            });
            match again {
                Ok(Ok(c)) => {
                    if c.bytes != chunk.bytes || c.constants != chunk.constants || c.debug_info != chunk.debug_info {
                        diffs += 1;
                    }
                }
                _ => diffs += 1,
            }
        }
        resp.insert("determinism_diffs".into(), json!(diffs));
        // a stable digest for cross-process comparison
        use std::hash::{Hash, Hasher};
        let mut h = std::collections::hash_map::DefaultHasher::new();
        chunk.bytes.hash(&mut h);
        for c in chunk.constants.iter() {
            format!("{c:?}").hash(&mut h);
        }
        resp.insert("chunk_digest".into(), json!(format!("{:016x}", h.finish())));
    }

    if req.compile_only {
        resp.insert("outcome".into(), json!("compiled"));
        return Value::Object(resp);
    }

    // run
    let run = panics::guarded(|| koto.run(chunk.clone()));
    let stdout = out.take();
    resp.insert("stdout".into(), json!(stdout));
    match run {
        Err(p) => {
            resp.insert("outcome".into(), json!("panic"));
            resp.insert("phase".into(), json!("run"));
            resp.insert("panic".into(), panics::to_json(&p));
        }
        Ok(Ok(value)) => {
            let ty = value.type_as_string().to_string();
            match panics::guarded(|| koto.value_to_string(value.clone())) {
                Ok(Ok(s)) => {
                    resp.insert("outcome".into(), json!("ok"));
                    resp.insert("result".into(), json!(s));
                    resp.insert("result_type".into(), json!(ty));
                }
                Ok(Err(e)) => {
                    let shown = panics::guarded(|| e.to_string()).unwrap_or_else(|p| format!("<panic {}>", p.signature));
                    resp.insert("outcome".into(), json!("ok"));
                    resp.insert("result".into(), Value::Null);
                    resp.insert("result_type".into(), json!(ty));
                    resp.insert("display_error".into(), json!(shown));
                }
                Err(p) => {
                    resp.insert("outcome".into(), json!("panic"));
                    resp.insert("phase".into(), json!("display"));
                    resp.insert("panic".into(), panics::to_json(&p));
                }
            }
            let extra = out.take();
            if !extra.is_empty() {
                resp.insert("display_stdout".into(), json!(extra));
            }
        }
        Ok(Err(e)) => match panics::guarded(|| e.to_string()) {
            Ok(full) => {
                let (msg, trace) = split_error(&full);
                resp.insert("outcome".into(), json!("runtime_error"));
                resp.insert(
                    "is_timeout".into(),
                    json!(msg.starts_with("execution timed out")),
                );
                if let Some(tag) = monitor::classify_internal_error(&msg) {
                    resp.insert("internal_fault".into(), json!(tag));
                }
                resp.insert("error".into(), json!(msg));
                // a deep recursion leaves a trace of millions of frames: only its head travels to the driver
                resp.insert("trace".into(), json!(clip(&trace, 20_000)));
            }
            Err(p) => {
                resp.insert("outcome".into(), json!("panic"));
                resp.insert("phase".into(), json!("error_display"));
                resp.insert("panic".into(), panics::to_json(&p));
            }
        },
    }

    let snap = monitor::take_run();
    resp.insert(
        "vm".into(),
        json!({
            "instructions": snap.instructions,
            "faults": faults_json(&snap.faults),
            "armed": snap.timeout_armed,
            "polled": snap.timeout_polled,
            "fired": snap.timeout_fired,
            "max_depth": snap.max_call_depth,
        }),
    );

    if resp.get("outcome").and_then(|o| o.as_str()) != Some("panic") {
        let state = koto.verif_vm().verif_state();
        let r = residue(&state, &quiescent);
        resp.insert("residue".into(), json!(r));
        if req.want_exports {
            let mut exports = Vec::new();
            let entries: Vec<(String, KValue)> = koto
                .exports()
                .data()
                .iter()
                .map(|(k, v)| (k.to_string(), v.clone()))
                .collect();
            for (k, v) in entries {
                let shown = match panics::guarded(|| koto.value_to_string(v.clone())) {
                    Ok(Ok(s)) => s,
                    Ok(Err(_)) => "<display error>".into(),
                    Err(_) => "<display panic>".into(),
                };
                exports.push(json!([k, shown]));
            }
            resp.insert("exports".into(), Value::Array(exports));
        }
    }
    resp.insert("wall_us".into(), json!(t0.elapsed().as_micros() as u64));
    Value::Object(resp)
}


/// Runs a script on a bare KotoVm (typed errors): returns the trace of an uncaught runtime error mapped through the
/// chunk's debug info, and the rendered message
pub fn exec_trace(req: &ExecRequest) -> Value {
    use koto_bytecode::ModuleLoader;
    let out = OutputCapture::default();
    let mut resp = serde_json::Map::new();
    let mut vm = KotoVm::with_settings(KotoVmSettings {
        execution_limit: if req.limit_ms > 0 { Some(Duration::from_millis(req.limit_ms)) } else { None },
        stdout: make_ptr!(out.clone()),
        stderr: make_ptr!(out.clone()),
        ..Default::default()
    });
    let mut loader = ModuleLoader::default();
    let settings = CompilerSettings {
        enable_type_checks: req.type_checks,
        export_top_level_ids: req.export_top,
        ..Default::default()
    };
    let compiled = panics::guarded(|| loader.compile_script(&req.src, req.path.as_deref().map(|p| p.into()), settings));
    let chunk = match compiled {
        Err(p) => {
            resp.insert("outcome".into(), json!("panic"));
            resp.insert("panic".into(), panics::to_json(&p));
            return Value::Object(resp);
        }
        Ok(Err(e)) => {
            resp.insert("outcome".into(), json!("compile_error"));
            let shown = panics::guarded(|| e.to_string());
            match shown {
                Ok(s) => { resp.insert("error".into(), json!(s)); }
                Err(p) => {
                    resp.insert("outcome".into(), json!("panic"));
                    resp.insert("panic".into(), panics::to_json(&p));
                    return Value::Object(resp);
                }
            }
            if let Some(source) = &e.source {
                let s = source.span;
                resp.insert("span".into(), json!([s.start.line, s.start.column, s.end.line, s.end.column]));
            }
            return Value::Object(resp);
        }
        Ok(Ok(c)) => c,
    };
    let run = panics::guarded(|| vm.run(chunk.clone()));
    resp.insert("stdout".into(), json!(out.take()));
    match run {
        Err(p) => {
            resp.insert("outcome".into(), json!("panic"));
            resp.insert("panic".into(), panics::to_json(&p));
        }
        Ok(Ok(v)) => {
            resp.insert("outcome".into(), json!("ok"));
            let shown = panics::guarded(|| vm.value_to_string(&v)).ok().and_then(|r| r.ok());
            resp.insert("result".into(), json!(shown));
        }
        Ok(Err(e)) => {
            resp.insert("outcome".into(), json!("runtime_error"));
            let mut frames = Vec::new();
            for frame in e.trace.iter() {
                match frame.chunk.debug_info.get_source_span(frame.instruction) {
                    Some(span) => frames.push(json!({
                        "start_line": span.start.line, "start_column": span.start.column,
                        "end_line": span.end.line, "end_column": span.end.column,
                        "same_chunk": koto_runtime::Ptr::ptr_eq(&frame.chunk, &chunk),
                    })),
                    None => frames.push(json!({"missing_span": true})),
                }
            }
            resp.insert("frames".into(), Value::Array(frames));
            match panics::guarded(|| e.to_string()) {
                Ok(full) => { resp.insert("rendered".into(), json!(full)); }
                Err(p) => {
                    resp.insert("outcome".into(), json!("panic"));
                    resp.insert("panic".into(), panics::to_json(&p));
                }
            }
            resp.insert("kind".into(), json!(match &e.error {
                koto_runtime::ErrorKind::KotoError { .. } => "thrown",
                koto_runtime::ErrorKind::Timeout(_) => "timeout",
                _ => "runtime",
            }));
        }
    }
    Value::Object(resp)
}
