"""Common frame of every check: build, known findings, evidence, verdict lines, exit code."""
import hashlib, json, os, subprocess, sys, time

VERIF = os.path.dirname(os.path.dirname(os.path.abspath(__file__)))
HARNESS = os.path.join(VERIF, "harness")

def sha(s):
    if isinstance(s, str):
        s = s.encode("utf-8", "surrogatepass")
    return hashlib.sha1(s).hexdigest()[:16]

def build(flavour="rc", profile="release", extra_env=None, toolchain=None, extra_args=()):
    """Builds the worker from /repo's current working tree. Returns (ok, log)."""
    env = dict(os.environ)
    env["CARGO_NET_OFFLINE"] = "true"
    if extra_env:
        env.update(extra_env)
    lock = os.path.join(HARNESS, "Cargo.lock")
    if not os.path.exists(lock):
        import shutil
        shutil.copy("/repo/Cargo.lock", lock)
    cmd = ["cargo"]
    if toolchain:
        cmd.append("+" + toolchain)
    cmd += ["build", "--offline", "--target-dir", os.path.join(VERIF, "target-" + flavour)]
    if profile == "release":
        cmd.append("--release")
    else:
        cmd += ["--profile", profile]
    if flavour == "arc":
        cmd += ["--no-default-features", "--features", "arc"]
    cmd += list(extra_args)
    for attempt in range(2):
        p = subprocess.run(cmd, cwd=HARNESS, env=env, stdout=subprocess.PIPE, stderr=subprocess.STDOUT)
        if p.returncode == 0:
            return True, ""
        log = p.stdout.decode("utf-8", "replace")
        if attempt == 0 and ("Cargo.lock" in log or "lock file" in log):
            # the repository's dependency set changed: start again from its lock file
            import shutil
            shutil.copy("/repo/Cargo.lock", lock)
            continue
        return False, log
    return False, log

def load_known(pid):
    path = os.path.join(VERIF, "known_findings.json")
    if not os.path.exists(path):
        return []
    data = json.load(open(path))
    return [f for f in data.get("findings", []) if pid in f.get("properties", [])]

def _shrink(x, limit=30000):
    """Keeps replay files bounded: very long strings are cut (the head is what matters for triage)."""
    if isinstance(x, str):
        return x if len(x) <= limit else x[:limit] + "...<cut %d chars>" % (len(x) - limit)
    if isinstance(x, dict):
        return {k: _shrink(v, limit) for k, v in x.items()}
    if isinstance(x, (list, tuple)):
        return [_shrink(v, limit) for v in x]
    return x

class Check:
    def __init__(self, pid, tier, seed, level="exploration"):
        self.pid, self.tier, self.seed, self.level = pid, tier, seed, level
        try:
            # the evidence level is the level claimed in the manifest
            for c in json.load(open(os.path.join(VERIF, "MANIFEST.json")))["checks"]:
                if c["property_id"] == pid:
                    self.level = c["level_claimed"]["category"]
        except Exception:
            pass
        self.t0 = time.time()
        self.violations = {}       # key -> (summary, case)
        self.known = load_known(pid)
        self.known_keys = {}
        self.known_prefixes = []
        self.known_regexes = []
        import re
        for f in self.known:
            for k in f.get("key_regex", []):
                self.known_regexes.append((re.compile(k), f))
            for k in f.get("keys", []):
                if k.endswith("*"):
                    self.known_prefixes.append((k[:-1], f))
                else:
                    self.known_keys[k] = f
        import shutil
        shutil.rmtree(os.path.join(VERIF, "replay", pid), ignore_errors=True)
        self.known_seen = {}       # finding id -> count
        self.inconclusive = []     # reasons
        self.notes = []
        self.harness_errors = []

    def build(self, flavour="rc", profile="release", **kw):
        ok, log = build(flavour, profile, **kw)
        if not ok:
            print(log[-4000:])
            self.inconclusive.append("build of the %s/%s worker failed" % (flavour, profile))
        return ok

    def violation(self, key, summary, case):
        """Registers an oracle alarm. key: the exact signature used for known-finding matching."""
        case = _shrink(case)
        f = self.known_keys.get(key)
        if f is None:
            for pre, pf in self.known_prefixes:
                if key.startswith(pre):
                    f = pf
                    break
        if f is None:
            for rx, rf in self.known_regexes:
                if rx.search(key):
                    f = rf
                    break
        if f is not None:
            self.known_seen[f["id"]] = self.known_seen.get(f["id"], 0) + 1
            return False
        if key not in self.violations:
            self.violations[key] = (summary, case)
        return True

    def merge_shard(self, shard):
        """Folds the generic parts of a shard report: violations, harness errors."""
        if "harness_error" in shard:
            self.harness_errors.append(shard["harness_error"])
            return
        for v in shard.get("violations", []):
            self.violation(v["key"], v["summary"], v.get("case"))
        for r in shard.get("inconclusive", []):
            self.inconclusive.append(r)

    def finish(self, coverage, assumptions=None, min_nontrivial=2):
        wall = time.time() - self.t0
        n_viol = len(self.violations)
        out_lines = []
        for f in self.known:
            n = self.known_seen.get(f["id"], 0)
            if n:
                out_lines.append("KNOWN-FINDING: property=%s %s: %s (observed %d times in this run)" % (self.pid, f["id"], f["what"], n))
        replay_dir = os.path.join(VERIF, "replay", self.pid)
        shown = 0
        items = list(self.violations.items())
        if getattr(self, "sort_key", None):
            items.sort(key=lambda kv: self.sort_key(kv[0]))
        for key, (summary, case) in items:
            if shown >= int(os.environ.get('KV_REPLAY_CAP', '100')):
                shown += 1
                continue
            os.makedirs(replay_dir, exist_ok=True)
            path = os.path.join(replay_dir, sha(key) + ".json")
            with open(path, "w") as fh:
                json.dump({"property": self.pid, "key": key, "summary": summary, "case": case,
                           "seed": self.seed, "tier": self.tier}, fh, indent=1, ensure_ascii=False)
            if shown < 40:
                out_lines.append("VIOLATION property=%s replay=%s  # %s" % (self.pid, path, summary[:300].replace("\n", "\\n")))
            shown += 1
        if shown > 40:
            out_lines.append("# ... %d further violations (the first 100 are written to %s)" % (shown - 40, replay_dir))
        coverage = dict(coverage)
        coverage.setdefault("known_findings_observed", self.known_seen)
        coverage.setdefault("inconclusive", self.inconclusive[:20])
        if self.harness_errors:
            coverage["harness_errors"] = self.harness_errors[:5]
        ev = {
            "property_id": self.pid, "tier": self.tier, "seed": self.seed, "level": self.level,
            "coverage": coverage, "assumptions": assumptions or [], "wall_s": round(wall, 2),
            "violations": n_viol,
        }
        os.makedirs(os.path.join(VERIF, "evidence"), exist_ok=True)
        with open(os.path.join(VERIF, "evidence", self.pid + ".json"), "w") as fh:
            json.dump(ev, fh, indent=1, ensure_ascii=False)
            fh.write("\n")
        for l in out_lines:
            print(l)
        if n_viol:
            print("%s: VIOLATED (%d distinct violations, %.1fs)" % (self.pid, n_viol, wall))
            return 1
        hard_inconclusive = [r for r in self.inconclusive if r.startswith("build") or r.startswith("fatal")]
        if self.harness_errors or hard_inconclusive or coverage.get("distinct_nontrivial", 0) < min_nontrivial:
            for e in self.harness_errors[:3]:
                print("HARNESS-ERROR:", e[:2000])
            print("%s: INCONCLUSIVE (%s)" % (self.pid, "; ".join(hard_inconclusive) or "harness error or too few observations"))
            return 2
        print("%s: held on %d evaluations (%d distinct non-trivial), %d known findings observed, %.1fs" % (
            self.pid, coverage.get("evaluations", 0), coverage.get("distinct_nontrivial", 0), len(self.known_seen), wall))
        return 0
