"""Layout printer: model AST -> Koto source text (DESIGN.md 3.3.3, appendix B).

`Printer(rng=None)` prints the canonical layout; with an rng the documented layout freedoms are
flipped per node (comments, blank lines, trailing whitespace, redundant parentheses, inline vs block
forms, paren-free calls in statement position, broken argument lists / binary expressions). The
line map (line -> node tags) is recorded for C12."""
from .values import float_str
import math

PREC = {"or": 3, "and": 4, "==": 5, "!=": 5, "<": 6, "<=": 6, ">": 6, ">=": 6, "+": 7, "-": 7, "*": 8, "/": 8, "%": 8, "^": 9}
CHAIN_LEVELS = {5, 6}

def quote(s, q="'"):
    out = []
    for c in s:
        if c == "\\": out.append("\\\\")
        elif c == q: out.append("\\" + q)
        elif c == "{": out.append("\\{")
        elif c == "\n": out.append("\\n")
        elif c == "\r": out.append("\\r")
        elif c == "\t": out.append("\\t")
        else: out.append(c)
    return "".join(out)

SIMPLE = {"null", "bool", "int", "float", "str", "var", "self", "list", "tuple", "map", "call", "mcall", "index", "access", "paren", "trace", "print"}

class Printer:
    def __init__(self, rng=None, freedoms=None):
        self.rng = rng
        self.freedoms = freedoms if freedoms is not None else set()
        self.lines = []
        self.line_kinds = []
        self.line_tags = {}
        self.no_break = 0
        self.breaks_in_stmt = 0

    NO_BREAK = {"break_binary", "args_lines", "list_lines", "chain_break", "comment_inline"}
    def header_expr(self, e, prec=0):
        """Conditions / subjects / iterables in block headers stay on one line (a header's expression cannot be broken)."""
        self.no_break += 1
        try:
            return self.expr(e, prec)
        finally:
            self.no_break -= 1

    BREAKS = {"break_binary", "args_lines", "list_lines", "chain_break"}
    def flip(self, name, p=0.3):
        if self.no_break and name in self.NO_BREAK:
            return False
        if name in self.BREAKS and self.breaks_in_stmt > 0:
            # one broken construct per statement: a second break after a break inside a nested operand needs deeper
            # indentation than the first (layout rule of the parser) - variants stay within the plainly documented form
            return False
        r = self.rng is not None and name in self.freedoms and self.rng.random() < p
        if r and name in self.BREAKS:
            self.breaks_in_stmt += 1
        return r

    # ---- statements -------------------------------------------------------------------------
    def program(self, block, prelude=""):
        self.lines = prelude.split("\n") if prelude else []
        if self.lines and self.lines[-1] == "":
            self.lines.pop()
        self.line_kinds = ["prelude"] * len(self.lines)
        self.block(block, 0)
        text = "\n".join(self.lines) + "\n"
        if self.flip("crlf", 0.15):
            text = text.replace("\n", "\r\n")
        return text

    def emit(self, text, ind, tag=None, kind="complete"):
        """kind: 'header' (an indented block must follow), 'complete' (a complete statement), 'arm' (a match/switch arm
        header, not judged by the prefix oracle)."""
        after_header = bool(self.line_kinds) and self.line_kinds[-1] in ("header", "arm")
        if "no_blank_after_header" in self.freedoms and text.split(" ")[0] in ("else", "catch", "finally"):
            after_header = True      # (formatter input guard) no trivia between a block and its else / catch / finally
        if self.flip("blank", 0.08) and not (after_header and "no_blank_after_header" in self.freedoms):
            self.lines.append("")
            self.line_kinds.append("trivia")
        quiet = after_header and "no_blank_after_header" in self.freedoms
        if not quiet and self.flip("comment_line", 0.06):
            self.lines.append("  " * ind + "# note %d" % len(self.lines))
            self.line_kinds.append("trivia")
        if not quiet and self.flip("comment_multi", 0.03):
            self.lines.append("  " * ind + "#- note")
            self.lines.append("  " * ind + "   %d -#" % len(self.lines))
            self.line_kinds += ["trivia", "trivia"]
        self.breaks_in_stmt = 0
        text = text.replace("\x00", "\n" + "  " * (ind + 1)).replace("\x01", "\n" + "  " * ind)
        line = "  " * ind + text
        if self.flip("comment_eol", 0.06) and not (kind in ("header", "arm") and "no_blank_after_header" in self.freedoms):
            line += "  # c"
        if self.flip("trailing_ws", 0.06):
            line += "  "
        if tag is not None:
            self.line_tags.setdefault(len(self.lines), []).append(tag)
        parts = line.split("\n")
        for i, part in enumerate(parts):
            self.lines.append(part)
            self.line_kinds.append(kind if i == len(parts) - 1 else "continued")

    def block(self, stmts, ind):
        if not stmts:
            self.emit("null", ind)
            return
        for s in stmts:
            self.stmt(s, ind)

    def stmt(self, n, ind, prefix=""):
        """Prints a statement; prefix is e.g. 'x = ' or 'return ' for block-valued right-hand sides."""
        k = n[0]
        m = getattr(self, "s_" + k, None)
        if m is not None:
            return m(n, ind, prefix)
        text = self.expr(n, 0, stmt=(prefix == ""))
        if prefix == "" and text[:1] in "-+":
            # a line that starts with an operator continues the expression of the preceding block
            text = "(" + text + ")"
        self.emit(prefix + text, ind, tag=n)

    def s_assign(self, n, ind, prefix):
        target, e = n[1], n[2]
        head = prefix + ("let " if target[0] == "var" and len(target) > 2 and target[2] else "") + self.target(target) + " = "
        if self.is_blocky(e) or (e[0] == "fn" and self.flip("fn_block", 0.4)):
            return self.stmt(e, ind, head)
        if e[0] == "map" and e[1] and self.flip("map_block", 0.4) and all(self.mapkey(k)[:1] not in "'@" and self.is_simple(v) and v[0] not in ("fn", "if", "map") for k, v in e[1]):
            self.emit(head.rstrip(), ind, tag=n, kind="header")
            for k, v in e[1]:
                self.emit(self.mapkey(k) + ": " + self.expr(v, 1), ind + 1)
            return
        self.emit(head + self.expr(e, 0), ind, tag=n)
    def s_return(self, n, ind, prefix):
        if n[1] is None:
            return self.emit(prefix + "return", ind, tag=n)
        if self.is_blocky(n[1]):
            return self.stmt(n[1], ind, prefix + "return ")
        self.emit(prefix + "return " + self.expr(n[1], 0), ind, tag=n)
    def is_blocky(self, e):
        return e[0] in ("if", "switch", "match", "while", "until", "loop", "for", "try") and not self.inline_ok(e) or (e[0] == "fn" and not self.fn_inline_ok(e))

    def inline_ok(self, e):
        """if/switch with single simple-expression branches can be written inline."""
        if e[0] == "if":
            if len(e) > 3 and e[3] == "block":
                return False
            blocks = [b for _, b in e[1]] + ([e[2]] if e[2] is not None else [])
            return len(e[1]) == 1 and all(len(b) == 1 and self.is_simple(b[0]) for b in blocks)
        return False
    def is_simple(self, e):
        if e[0] in SIMPLE or e[0] in ("bin", "neg", "not", "cmpchain", "range", "pipe"):
            return all(self.is_simple(x) for x in self.children(e))
        if e[0] == "if":
            return self.inline_ok(e)
        if e[0] == "fn":
            return self.fn_inline_ok(e)
        return False
    def children(self, e):
        k = e[0]
        if k in ("null", "bool", "int", "float", "var", "self"): return []
        if k == "str": return [p[1] for p in e[1] if not isinstance(p, str)]
        if k in ("list", "tuple"): return e[1]
        if k == "map": return [v for _, v in e[1]]
        if k == "call": return [e[1]] + [a[1] if a[0] == "spread" else a for a in e[2]]
        if k == "mcall": return [e[1]] + [a[1] if a[0] == "spread" else a for a in e[3]]
        if k == "pipe": return [e[1], e[2]] + list(e[3])
        if k in ("index",): return [e[1], e[2]]
        if k in ("access", "paren", "neg", "not"): return [e[1]]
        if k == "trace": return [e[2]]
        if k == "print": return e[1]
        if k == "bin": return [e[2], e[3]]
        if k == "cmpchain": return e[1]
        if k == "range": return [x for x in (e[1], e[2]) if x is not None]
        if k == "if": return [c for c, _ in e[1]] + [b[0] for _, b in e[1]] + ([e[2][0]] if e[2] else [])
        return []

    def s_if(self, n, ind, prefix):
        if self.inline_ok(n) and (prefix == "" and not self.flip("if_block", 0.5) or prefix != "" and not self.flip("if_block", 0.5)):
            return self.emit(prefix + self.expr(n, 0), ind, tag=n)
        first = True
        for cond, blk in n[1]:
            self.emit((prefix if first else "") + ("if " if first else "else if ") + self.header_expr(cond), ind, tag=n if first else None, kind="header")
            self.block(blk, ind + 1)
            first = False
        if n[2] is not None:
            self.emit("else", ind, kind="header")
            self.block(n[2], ind + 1)
    def s_switch(self, n, ind, prefix):
        self.emit(prefix + "switch", ind, tag=n, kind="header")
        for cond, blk in n[1]:
            head = "else" if cond is None else self.header_expr(cond) + " then"
            self.arm(head, blk, ind + 1)
    def bare_tuple_text(self, e):
        """`a, b` for a tuple of two or more simple elements (the parentheses are optional in an arm body)."""
        if e[0] == "tuple" and len(e[1]) >= 2 and all(self.is_simple(x) and x[0] not in ("fn", "if", "pipe", "tuple") for x in e[1]) and self.flip("bare_tuple", 0.5):
            self.no_break += 1
            try:
                return ", ".join(self.expr(x, 2) for x in e[1])
            finally:
                self.no_break -= 1
        return None
    def arm(self, head, blk, ind):
        if len(blk) == 1 and self.is_simple(blk[0]) and not self.flip("arm_block", 0.4):
            bare = self.bare_tuple_text(blk[0])
            self.emit(head + " " + (bare if bare is not None else self.header_expr(blk[0], 1 if head == "else" else 0)), ind)
        else:
            self.emit(head, ind, kind="arm")
            bare = self.bare_tuple_text(blk[-1]) if blk else None
            if bare is not None:
                if len(blk) > 1:
                    self.block(blk[:-1], ind + 1)
                self.emit(bare, ind + 1)
            else:
                self.block(blk, ind + 1)
    def s_match(self, n, ind, prefix):
        self.emit(prefix + "match " + ", ".join(self.header_expr(s) for s in n[1]), ind, tag=n, kind="header")
        for alts, guard, blk in n[2]:
            if alts is None:
                head = "else"
            else:
                head = " or ".join(", ".join(self.pattern(p) for p in alt) for alt in alts)
                if guard is not None:
                    head += " if " + self.header_expr(guard)
                head += " then"
            self.arm(head, blk, ind + 1)
    def pattern(self, p):
        k = p[0]
        if k == "plit":
            saved, self.rng = self.rng, None      # (-2) would be a tuple pattern: literals in patterns are printed plainly
            try:
                return self.expr(p[1], 0)
            finally:
                self.rng = saved
        if k == "var": return p[1] + (": " + p[2] if len(p) > 2 and p[2] else "")
        if k == "ignore": return "_" + (": " + p[1] if len(p) > 1 and p[1] else "")
        if k == "rest": return (p[1] or "") + "..."
        if k == "tpat": return "(" + ", ".join(self.pattern(x) for x in p[1]) + ("," if len(p[1]) == 1 and p[1][0][0] != "rest" else "") + ")"
        if k == "mpat": return "{" + ", ".join(key if key == name else key + " as " + name for key, name in p[1]) + "}"
        raise ValueError("pattern " + k)
    def s_while(self, n, ind, prefix):
        self.emit(prefix + "while " + self.header_expr(n[1]), ind, tag=n, kind="header"); self.block(n[2], ind + 1)
    def s_until(self, n, ind, prefix):
        self.emit(prefix + "until " + self.header_expr(n[1]), ind, tag=n, kind="header"); self.block(n[2], ind + 1)
    def s_loop(self, n, ind, prefix):
        self.emit(prefix + "loop", ind, tag=n, kind="header"); self.block(n[1], ind + 1)
    def s_for(self, n, ind, prefix):
        it = n[2]
        self.no_break += 1
        its = self.range_text(it) if it[0] == "range" else self.expr(it, 0)
        self.no_break -= 1
        self.emit(prefix + "for " + ", ".join(self.target(t) for t in n[1]) + " in " + its, ind, tag=n, kind="header")
        self.block(n[3], ind + 1)
    def s_try(self, n, ind, prefix):
        self.emit(prefix + "try", ind, tag=n, kind="header")
        self.block(n[1], ind + 1)
        for target, hint, blk in n[2]:
            t = "_" if target is None else target[1]
            if hint is not None: t += ": " + hint
            self.emit("catch " + t, ind, kind="header")
            self.block(blk, ind + 1)
        if n[3] is not None:
            self.emit("finally", ind, kind="header")
            self.block(n[3], ind + 1)
    def s_fn(self, n, ind, prefix):
        self.emit(prefix + self.fn_head(n), ind, tag=n, kind="header")
        self.block(n[3], ind + 1)
    def fn_inline_ok(self, n):
        return len(n[3]) == 1 and self.is_simple(n[3][0]) and n[3][0][0] != "fn" and not (len(n) > 6 and n[6] == "block")
    def fn_head(self, n):
        self.no_break += 1      # a function header stays on one line
        try:
            return self.fn_head_inner(n)
        finally:
            self.no_break -= 1
    def fn_head_inner(self, n):
        ps = []
        for target, default in n[1]:
            s = self.param(target)
            if default is not None:
                s += " = " + self.expr(default, 1)
            ps.append(s)
        if n[2] is not None:
            ps.append(n[2] + "...")
        return "|" + ", ".join(ps) + "|"
    def param(self, t):
        k = t[0]
        if k == "var": return t[1] + (": " + t[2] if len(t) > 2 and t[2] else "")
        if k == "ignore": return "_"
        if k == "tpat": return "(" + ", ".join(self.param(x) for x in t[1]) + ")"
        if k == "rest": return (t[1] or "") + "..."
        if k == "mpat": return "{" + ", ".join(key if key == name else key + " as " + name for key, name in t[1]) + "}"
        raise ValueError(k)
    def s_multi(self, n, ind, prefix):
        e = n[2]
        rhs = ", ".join(self.expr(x, 1) for x in e[1]) if (e[0] == "tuple" and e[3:] == ("bare",)) else self.expr(e, 0)
        self.emit(prefix + ", ".join(self.target(t) for t in n[1]) + " = " + rhs, ind, tag=n)
    def s_block(self, n, ind, prefix):
        self.block(n[1], ind)

    def target(self, t):
        k = t[0]
        if k == "var": return t[1] + (": " + t[2] if len(t) > 2 and t[2] else "")
        if k == "ignore": return "_"
        if k == "index": return self.expr(t[1], 10) + "[" + self.index_text(t[2]) + "]"
        if k == "access": return self.expr(t[1], 10) + "." + t[2]
        raise ValueError(k)

    # ---- expressions ------------------------------------------------------------------------
    def expr(self, n, prec, stmt=False):
        """prec: the binding strength required by the context (0 = none, 10 = postfix operand)."""
        k = n[0]
        s, p = getattr(self, "x_" + k)(n, stmt)
        if p < prec or (p < 10 and k in ("bin", "neg", "cmpchain", "int", "float", "if", "pipe") and self.flip("parens", 0.07)):
            return "(" + s + ")"
        return s

    def x_null(self, n, stmt): return "null", 10
    def x_bool(self, n, stmt): return ("true" if n[1] else "false"), 10
    def x_int(self, n, stmt):
        v = n[1]
        if v == -(1 << 63): return "(-9223372036854775807 - 1)", 10
        if v < 0: return str(v), 9.5
        if self.flip("numspell", 0.1) and v >= 0:
            return ("0x%x" % v), 10
        return str(v), 10
    def x_float(self, n, stmt):
        f = n[1]
        if math.isnan(f): return "(0 / 0)", 10
        if math.isinf(f): return ("(1 / 0)" if f > 0 else "(-1 / 0)"), 10
        s = float_str(f)
        if f < 0 or (f == 0 and math.copysign(1, f) < 0): return s, 9.5
        return s, 10
    def x_str(self, n, stmt):
        q = '"' if self.flip("quotes", 0.3) else "'"
        out = [q]
        for p in n[1]:
            if isinstance(p, str):
                out.append(quote(p, q))
            else:
                self.no_break += 1       # a placeholder cannot span lines or hold comments
                try:
                    inner = self.expr(p[1], 0)
                finally:
                    self.no_break -= 1
                spec = p[2] if len(p) > 2 and p[2] else ""
                out.append("{" + inner + (":" + spec if spec else "") + "}")
        out.append(q)
        return "".join(out), 10
    def x_list(self, n, stmt):
        items = [self.expr(x, 1) for x in n[1]]
        if len(items) >= 2 and self.flip("list_lines", 0.08) and not any("\x00" in i or "\x01" in i or "\n" in i for i in items):
            return "[\x00" + ",\x00".join(items) + ("," if self.flip("list_lines", 0.5) else "") + "\x01]", 10
        return "[" + ", ".join(items) + "]", 10
    def x_tuple(self, n, stmt):
        if len(n[1]) == 1: return "(" + self.expr(n[1][0], 1) + ",)", 10
        return "(" + self.seq(n[1]) + ")", 10
    def seq(self, items):
        return ", ".join(self.expr(x, 1) for x in items)
    def x_map(self, n, stmt):
        return "{" + ", ".join(self.mapkey(k) + ": " + self.expr(v, 1) for k, v in n[1]) + "}", 10
    def mapkey(self, k):
        if k.startswith("@"): return k
        if k.isidentifier() and k not in KEYWORDS: return k
        return "'" + quote(k) + "'"
    def range_text(self, n):
        lo = "" if n[1] is None else self.expr(n[1], 7)
        hi = "" if n[2] is None else self.expr(n[2], 7)
        return lo + ("..=" if n[3] else "..") + hi
    def x_range(self, n, stmt): return "(" + self.range_text(n) + ")", 10
    def x_var(self, n, stmt): return n[1], 10
    def x_self(self, n, stmt): return "self", 10
    def x_paren(self, n, stmt): return "(" + self.expr(n[1], 0) + ")", 10
    def x_neg(self, n, stmt): return "-(" + self.expr(n[1], 0) + ")", 9.5
    def x_not(self, n, stmt): return "(not (" + self.expr(n[1], 0) + "))", 10
    def x_bin(self, n, stmt):
        op = n[1]
        p = PREC[op]
        if p in CHAIN_LEVELS:
            # comparison operators chain: operands at the same level must be parenthesised
            # (== != < <= > >= all chain with each other: `a >= b == c` is `a >= b and b == c`)
            a = self.expr(n[2], 7)
            b = self.expr(n[3], 7)
        else:
            a = self.expr(n[2], p)
            b = self.expr(n[3], p + 0.5)
        if self.flip("break_binary", 0.05) and "\n" not in a + b and "\x00" not in a + b and "\x01" not in a + b:
            return a + " " + op + "\x00" + b, p
        if self.flip("comment_inline", 0.03):
            return a + " " + op + " #- c -# " + b, p
        return a + " " + op + " " + b, p
    def x_cmpchain(self, n, stmt):
        p = min(PREC[o] for o in n[2])
        parts = [self.expr(n[1][0], 7)]
        for i, op in enumerate(n[2]):
            parts.append(op)
            parts.append(self.expr(n[1][i + 1], 7))
        return " ".join(parts), p
    def index_text(self, i):
        return self.range_text(i) if i[0] == "range" else self.expr(i, 0)
    def x_index(self, n, stmt): return self.expr(n[1], 10) + "[" + self.index_text(n[2]) + "]", 10
    def x_access(self, n, stmt): return self.expr(n[1], 10) + "." + n[2], 10
    def args(self, args):
        out = []
        for a in args:
            if a[0] == "spread":
                out.append(self.expr(a[1], 10) + "...")
            else:
                out.append(self.expr(a, 1))
        return ", ".join(out)
    def x_call(self, n, stmt):
        f = self.expr(n[1], 10)
        if stmt and n[2] and self.flip("paren_free", 0.5) and n[1][0] == "var" and all(a[0] != "fn" for a in n[2]):
            return f + " " + self.args(n[2]), 0
        if len(n[2]) >= 2 and self.flip("args_lines", 0.06):
            parts = [self.args([a]) for a in n[2]]
            if not any("\x00" in i or "\x01" in i or "\n" in i for i in parts):
                return f + "(\x00" + ",\x00".join(parts) + "\x01)", 10
        return f + "(" + self.args(n[2]) + ")", 10
    def x_mcall(self, n, stmt):
        o = self.expr(n[1], 10)
        if self.flip("chain_break", 0.06) and not any(c in o for c in "\x00\x01\n") and n[1][0] in ("var", "mcall", "call"):
            rest = "." + n[2] + "(" + self.args(n[3]) + ")"
            if not any(c in rest for c in "\x00\x01\n"):
                return o + "\x00" + rest, 10
        if stmt and n[3] and self.flip("paren_free", 0.5) and all(a[0] != "fn" for a in n[3]):
            return o + "." + n[2] + " " + self.args(n[3]), 0
        return o + "." + n[2] + "(" + self.args(n[3]) + ")", 10
    def x_pipe(self, n, stmt):
        f = self.expr(n[2], 10)
        rest = (" " + self.args(n[3])) if n[3] else ""
        return "(" + self.expr(n[1], 2) + " -> " + f + rest + ")", 10
    def x_trace(self, n, stmt):
        return "t(%d, %s)" % (n[1], self.expr(n[2], 0)), 10
    def x_print(self, n, stmt):
        if stmt and self.flip("paren_free", 0.5) and n[1] and all(self.is_simple(a) and a[0] not in ("fn",) for a in n[1]) and not (len(n[1]) == 1 and n[1][0][0] in ("tuple", "paren", "range", "neg") ) and not self.starts_with_paren_or_minus(n[1][0]):
            return "print " + self.args(n[1]), 0
        return "print(" + self.args(n[1]) + ")", 10
    def starts_with_paren_or_minus(self, e):
        s = self.expr(e, 0)
        return s[:1] in "(-["
    def x_if(self, n, stmt):
        self.no_break += 1      # an inline if stays on one line
        try:
            return self.x_if_inner(n, stmt)
        finally:
            self.no_break -= 1
    def x_if_inner(self, n, stmt):
        cond, blk = n[1][0]
        s = "if " + self.header_expr(cond, 1) + " then " + self.expr(blk[0], 1)
        if n[2] is not None:
            s += " else " + self.expr(n[2][0], 1)
        return s, 0
    def x_fn(self, n, stmt):
        self.no_break += 1      # an inline function body stays on one line
        try:
            return self.fn_head(n) + " " + self.expr(n[3][0], 0), 0
        finally:
            self.no_break -= 1
    def x_assign(self, n, stmt):
        return ("let " if n[1][0] == "var" and len(n[1]) > 2 and n[1][2] else "") + self.target(n[1]) + " = " + self.expr(n[2], 0), 0
    def x_opassign(self, n, stmt):
        return self.target(n[2]) + " " + n[1] + "= " + self.expr(n[3], 0), 0
    def x_break(self, n, stmt):
        return ("break" if n[1] is None else "break " + self.expr(n[1], 0)), 0
    def x_continue(self, n, stmt): return "continue", 0
    def x_return(self, n, stmt):
        return ("return" if n[1] is None else "return " + self.expr(n[1], 0)), 0
    def x_throw(self, n, stmt): return "throw " + self.expr(n[1], 0), 0
    def x_yield(self, n, stmt): return "yield " + self.expr(n[1], 0), 0

KEYWORDS = {"as", "and", "break", "catch", "continue", "debug", "else", "export", "false", "finally", "for", "from", "if", "import", "in",
            "loop", "match", "not", "null", "or", "return", "self", "switch", "then", "throw", "true", "try", "until", "while", "yield",
            "await", "const", "let"}

TRACE_PRELUDE = "t = |k, v|\n  print('T{k}')\n  v\n"

TRIVIA_FREEDOMS = {"blank", "comment_line", "comment_eol", "comment_multi", "comment_inline", "trailing_ws", "crlf"}
SPELLING_FREEDOMS = {"parens", "paren_free", "quotes", "numspell", "bare_tuple"}
LAYOUT_FREEDOMS = {"if_block", "arm_block", "fn_block", "map_block", "break_binary", "args_lines", "list_lines", "chain_break"}
ALL_FREEDOMS = TRIVIA_FREEDOMS | SPELLING_FREEDOMS | LAYOUT_FREEDOMS
