//! Panic capture (DESIGN.md 3.4.6)

use std::backtrace::Backtrace;
use std::cell::RefCell;
use std::panic;

#[derive(Clone, Debug, Default)]
pub struct PanicInfo {
    pub message: String,
    /// file:line:col of the panic location
    pub location: String,
    /// crate-relative file of the first frame under /repo (from the location or the backtrace)
    pub repo_file: String,
    /// function name of the first frame under /repo
    pub repo_function: String,
    /// (repo_file, repo_function, message with digits replaced)
    pub signature: String,
    pub backtrace_head: Vec<String>,
}

thread_local! {
    static LAST_PANIC: RefCell<Option<PanicInfo>> = const { RefCell::new(None) };
}

fn normalise_message(m: &str) -> String {
    let mut out = String::new();
    let mut last_digit = false;
    for c in m.chars() {
        if c.is_ascii_digit() {
            if !last_digit {
                out.push('#');
            }
            last_digit = true;
        } else {
            last_digit = false;
            out.push(c);
        }
    }
    // keep it short and single-line
    let out = out.replace('\n', " ");
    out.chars().take(160).collect()
}

fn strip_repo(path: &str) -> Option<String> {
    path.find("/repo/").map(|i| path[i + 6..].to_string())
}

pub fn install() {
    panic::set_hook(Box::new(|info| {
        let message = if let Some(s) = info.payload().downcast_ref::<&str>() {
            s.to_string()
        } else if let Some(s) = info.payload().downcast_ref::<String>() {
            s.clone()
        } else {
            "<non-string panic payload>".to_string()
        };
        let (loc_file, location) = match info.location() {
            Some(l) => (
                l.file().to_string(),
                format!("{}:{}:{}", l.file(), l.line(), l.column()),
            ),
            None => (String::new(), String::new()),
        };

        let bt = Backtrace::force_capture().to_string();
        // Parse the backtrace: lines alternate "  N: function" and "      at file:line:col"
        let mut frames: Vec<(String, String)> = Vec::new();
        let mut current_fn = String::new();
        for line in bt.lines() {
            let t = line.trim_start();
            if let Some(rest) = t.strip_prefix("at ") {
                frames.push((current_fn.clone(), rest.to_string()));
            } else if let Some(pos) = t.find(": ") {
                if t[..pos].chars().all(|c| c.is_ascii_digit()) {
                    current_fn = t[pos + 2..].to_string();
                }
            }
        }
        let mut repo_file = String::new();
        let mut repo_function = String::new();
        for (f, at) in &frames {
            if let Some(rel) = strip_repo(at) {
                // ignore frames of the harness itself
                let file = rel.rsplitn(3, ':').last().unwrap_or("").to_string();
                repo_file = file;
                repo_function = f.clone();
                break;
            }
        }
        if repo_file.is_empty() {
            if let Some(rel) = strip_repo(&loc_file) {
                repo_file = rel;
            }
        }
        // strip generic hashes from the function name
        if let Some(i) = repo_function.rfind("::h") {
            if repo_function[i + 3..].chars().all(|c| c.is_ascii_hexdigit()) {
                repo_function.truncate(i);
            }
        }
        let signature = format!(
            "{}|{}|{}",
            repo_file,
            repo_function,
            normalise_message(&message)
        );
        let backtrace_head = frames
            .iter()
            .filter(|(_, at)| at.contains("/repo/") || at.contains("/verif/"))
            .take(8)
            .map(|(f, at)| format!("{f} @ {at}"))
            .collect();
        LAST_PANIC.with(|p| {
            *p.borrow_mut() = Some(PanicInfo {
                message,
                location,
                repo_file,
                repo_function,
                signature,
                backtrace_head,
            })
        });
    }));
}

pub fn take() -> Option<PanicInfo> {
    LAST_PANIC.with(|p| p.borrow_mut().take())
}

/// Runs f, converting a panic into Err(PanicInfo)
pub fn guarded<T>(f: impl FnOnce() -> T) -> Result<T, PanicInfo> {
    let _ = take();
    match panic::catch_unwind(panic::AssertUnwindSafe(f)) {
        Ok(v) => Ok(v),
        Err(_) => Err(take().unwrap_or_default()),
    }
}

/// The allocation-exhaustion class that the properties exempt
pub fn is_excluded(p: &PanicInfo) -> bool {
    p.message == "capacity overflow"
        || p.message.starts_with("memory allocation of")
        || p.message.contains("capacity overflow")
}

pub fn to_json(p: &PanicInfo) -> serde_json::Value {
    serde_json::json!({
        "message": p.message,
        "location": p.location,
        "file": p.repo_file,
        "function": p.repo_function,
        "signature": p.signature,
        "excluded": is_excluded(p),
        "backtrace": p.backtrace_head,
    })
}
