"""C03 pattern matching and unpacking. Oracles: reference model vs real on generated match / unpack
programs (kgen match profile) + context relation, and a bounded-exhaustive subject x pattern grid
(one- and two-arm matches with guards) evaluated by the model's matcher."""
import os, time
from .common import *
from .modelrun import *
from . import c01
from kv.pool import fan_out
from kvmodel.printer import Printer
from kvmodel.interp import Interp
from kvmodel.values import ModelLimit, RuntimeErr, display

PID = "C03"

I = lambda v: ("int", v)
SUBJECTS = [("null",), ("bool", True), I(0), I(1), ("float", 1.5), ("str", ["a"]), ("str", [""]),
            ("tuple", [I(1)]), ("tuple", [I(1), I(2)]), ("tuple", [I(1), I(2), I(3)]), ("list", [I(1)]), ("list", [I(1), I(2)]), ("list", []),
            ("tuple", [("tuple", [I(1), I(2)]), I(3)]), ("tuple", [I(1), ("tuple", [I(2), I(3)])]), ("list", [("list", [I(1), I(2)]), I(3)]),
            ("map", [("a", I(1))]), ("map", [("a", I(1)), ("b", I(2))]), ("map", [])]
V = lambda n, h=None: ("var", n, h) if h else ("var", n)
PATTERNS = [("plit", I(0)), ("plit", I(1)), ("plit", ("str", ["a"])), ("plit", ("null",)), ("plit", ("bool", True)), ("plit", ("float", 1.5)), ("plit", ("float", 1.0)),
            V("x"), ("ignore",), V("x", "Number"), V("x", "String"), ("ignore", "Tuple"), ("ignore", "List"), V("x", "Map"), ("ignore", "Bool"), ("ignore", "Null"),
            ("ignore", "Indexable"), ("ignore", "Iterable"), ("ignore", "Any"), ("ignore", "Callable"),
            ("tpat", [V("x")]), ("tpat", [V("x"), V("y")]), ("tpat", [("plit", I(1)), V("y")]), ("tpat", [V("x"), ("plit", I(2))]), ("tpat", [V("x"), V("y"), V("z")]),
            ("tpat", [V("x"), ("rest", None)]), ("tpat", [("rest", None), V("z")]), ("tpat", [V("x"), ("rest", "r")]), ("tpat", [("rest", "r"), V("z")]),
            ("tpat", [("plit", I(1)), ("rest", None)]), ("tpat", [("rest", None)]), ("tpat", [("rest", "r")]),
            ("tpat", [("tpat", [V("x"), V("y")]), V("z")]), ("tpat", [V("x"), ("tpat", [V("y"), V("z")])]), ("tpat", [("tpat", [("plit", I(1)), V("y")]), ("rest", None)]),
            ("tpat", [V("x"), ("ignore",)]), ("tpat", [("ignore", "Number"), V("y")]),
            ("mpat", [("a", "x")]), ("mpat", [("a", "x"), ("b", "y")]), ("mpat", [("a", "q")]), ("mpat", [("zz", "x")])]

def bound_names(p, out):
    k = p[0]
    if k == "var": out.append(p[1])
    elif k == "tpat":
        for x in p[1]: bound_names(x, out)
    elif k == "rest" and p[1]: out.append(p[1])
    elif k == "mpat":
        for _, n in p[1]: out.append(n)
    return out

def _grid_cases(tier):
    guards = [None, ("bool", True), ("bool", False)]
    for s in SUBJECTS:
        for p in PATTERNS:
            for g in guards:
                yield s, [(p, g)]
    # two arms: first-match order
    pats2 = PATTERNS if tier == "thorough" else PATTERNS[::2]
    for s in SUBJECTS:
        for p in PATTERNS:
            for q in pats2:
                yield s, [(p, None), (q, None)]

def _arm_node(idx, p, g):
    names = bound_names(p, [])
    body = [("print", [("str", ["arm%d" % idx])] + [("var", n) for n in names])] + [("int", idx)]
    return ([[p]], g, body)

def _grid_shard(shard, n, tier, seed, budget_s):
    w = Worker()
    rep = {"violations": [], "evaluations": 0, "distinct": 0, "samples": [], "passenger": [], "cells": 0, "skipped_by_shape_guard": 0, "matched": 0}
    batch = []
    def flush():
        if not batch:
            return
        src = ""
        want = []
        for k, (node, out) in enumerate(batch):
            text = Printer().program([("assign", ("var", "r%d" % k), node), ("print", [("str", ["=%d " % k]), ("var", "r%d" % k)])])
            src += text
            want += out + ["('=%d ', %s)" % (k, out_value[k])]
        r = w.exec(TRACE_PRELUDE + src, timeout=30, limit_ms=10000)
        rep["evaluations"] += 1
        c01._passengers(rep, r, src)
        got = r.get("stdout", "").split("\n")[:-1] if r.get("outcome") == "ok" else None
        if got != want:
            # locate the first differing cell
            detail = "%s %s" % (r.get("outcome"), (r.get("error") or "")[:100])
            cell = None
            if got is not None:
                gi = 0
                for k, (node, out) in enumerate(batch):
                    exp = out + ["('=%d ', %s)" % (k, out_value[k])]
                    if got[gi:gi + len(exp)] != exp:
                        cell = (k, node, exp, got[gi:gi + len(exp) + 1])
                        break
                    gi += len(exp)
            if cell:
                k, node, exp, g = cell
                text = Printer().program([("assign", ("var", "r"), node), ("print", [("var", "r")])])
                rep["violations"].append({"key": "grid:%s" % sha(text), "summary": "match grid cell: expected %s, got %s" % (exp, g), "case": {"src": TRACE_PRELUDE + text, "expected": exp, "real": g}})
            else:
                rep["violations"].append({"key": "grid-batch:%s" % sha(src), "summary": "match grid batch failed: " + detail, "case": {"src": TRACE_PRELUDE + src, "real": real_view(r)}})
        batch.clear(); out_value.clear()
    out_value = []
    for idx, (s, arms) in enumerate(_grid_cases(tier)):
        if idx % n != shard:
            continue
        self_id = idx
        node = ("match", [("trace", 1, s)], [_arm_node(i, p, g) for i, (p, g) in enumerate(arms)] + [(None, None, [("int", -1)])])
        it = Interp(5000)
        try:
            v = it.ev(node, {})
            val = display(v, True, it)
        except ModelLimit:
            rep["skipped_by_shape_guard"] += 1
            continue
        except RuntimeErr:
            rep["skipped_by_shape_guard"] += 1
            continue
        rep["cells"] += 1
        rep["distinct"] += 1
        if v != -1:
            rep["matched"] += 1
        batch.append((node, list(it.out)))
        out_value.append(val)
        if len(rep["samples"]) < 1 and v == 0 and len(arms) == 2:
            rep["samples"].append({"match": Printer().program([node]), "model_out": it.out, "model_value": val})
        if len(batch) >= 60:
            flush()
    flush()
    w.close()
    return rep

def run(tier, seed):
    chk = Check(PID, tier, seed)
    if not chk.build():
        return chk.finish({"evaluations": 0, "distinct_nontrivial": 0, "rule": "", "samples": []})
    quick = tier == "quick"
    cov = {"evaluations": 0, "distinct_nontrivial": 0, "samples": [], "streams": {}, "passenger_observations": [], "passenger_src": []}
    w = Worker()
    cov["witnesses_replayed"] = replay_witnesses(chk, w)
    w.close()
    only = os.environ.get("KV_STREAMS")
    if not only or "kgen" in only:
        c01.fold(chk, cov, "kgen-match", fan_out(c01._kgen_shard, tier=tier, seed=seed, budget_s=20 if quick else 420, profile="GenMatch"))
    if not only or "grid" in only:
        c01.fold(chk, cov, "subject-x-pattern-grid", fan_out(_grid_shard, tier=tier, seed=seed, budget_s=300))
    cov["passenger_observations"] = cov["passenger_observations"][:30]
    cov["rule"] = ("kgen match profile: match expressions over traced subjects (evaluated once) with literal / identifier / wildcard / typed patterns, nested "
                   "tuple patterns with leading or trailing (named) rest, map patterns with `as`, `or` alternatives, guards, two-subject matches, values used or "
                   "ignored, plus multi-assignment and for-argument unpacking over tuples, lists, ranges, strings, maps and bare comma lists (too short / too long "
                   "/ ignored targets); model vs real in three contexts. Grid: %d subjects x %d patterns x {no guard, true, false} and x %s second patterns "
                   "(first-match order), every cell printing the arm taken and its bindings. distinct = distinct programs / grid cells that pass the shape guards." % (
                       len(SUBJECTS), len(PATTERNS), "all" if not quick else "every other"))
    return chk.finish(cov, assumptions=["reference model matcher (first arm, first alternative, guard once per arm, null when nothing matches)",
                                         "shape guards: pattern names are fresh (F-A2), ellipsis patterns only against containers (F-A4), nested tuple patterns only in the last alternative (F-A5), map patterns not against null/bool (F-A7), no `()` pattern (F-A8); strings / maps matching tuple patterns element-wise is pinned and not generated"])
