"""C19 rc and arc runtimes behave identically; shared containers are atomic under arc.
(a) Relational monitor: every generated program (four kgen profiles) and every runnable corpus
program is run by the rc worker and by the arc worker; outcome class, stdout and result must be
identical. (b) Offline history checkers over concurrent runs of the arc build (harness/src/conc.rs):
N in {2, 3, 4, 8} threads, each with its own Koto instance whose prelude holds the same list / map,
run scripts of single-container operations with unique ids; per-thread event logs recorded at the
script boundary are checked for conservation / exactly-once (list), per-key exactly-once chains
(map), whole groups in snapshots, termination (deadlock watchdog) and panics; the schedule-point hook
injects seeded yields and spins before lock acquisitions. Thorough tier: the same rounds under
ThreadSanitizer (nightly, -Zbuild-std)."""
import json, os, random, subprocess, time
from .common import *
from .modelrun import *
from . import c01
from kv.pool import fan_out
from kv.worker import binary
from kv.report import build, VERIF, HARNESS
from kvmodel.gen import Gen, GenFn, GenMatch, GenErr
from kvmodel.printer import Printer, TRACE_PRELUDE

PID = "C19"

def _relation_shard(shard, n, tier, seed, budget_s):
    w_rc, w_arc = Worker(flavour="rc"), Worker(flavour="arc")
    t_end = time.time() + budget_s
    rep = {"violations": [], "evaluations": 0, "distinct": set(), "samples": [], "passenger": [], "programs": 0, "corpus_programs": 0}
    def compare(text, origin):
        a = w_rc.exec(text, timeout=20, limit_ms=4000)
        b = w_arc.exec(text, timeout=20, limit_ms=4000)
        rep["evaluations"] += 2
        va, vb = c01.canon_view(real_view(a)), c01.canon_view(real_view(b))
        if "hang" in (va[0], vb[0]) or "died" in (va[0], vb[0]):
            return
        # panics under rc that are self-deadlocks under arc are the same recorded finding family (never generated here)
        if va != vb:
            rep["violations"].append({"key": "rc-arc:%s" % sha(text), "summary": "rc and arc builds behave differently (%s): %s vs %s" % (origin, str(va)[:120], str(vb)[:120]), "case": {"src": text, "rc": va, "arc": vb}})
        rep["distinct"].add(sha(text))
    progs = [p for p in corpus_mod.load() if p["runnable"] and corpus_mod.safe_to_run(p["src"]) and "time" not in p["src"] and "random" not in p["src"] and "hash" not in p["src"]]
    for pi, p in enumerate(progs):
        if pi % n != shard or time.time() > t_end - budget_s * 0.5:
            continue
        compare(p["src"], p["id"]); rep["corpus_programs"] += 1
    i = 0
    profiles = [Gen, GenFn, GenMatch, GenErr]
    while time.time() < t_end:
        i += 1
        rng = random.Random((seed * 1000003 + shard) * 1000003 + i)
        g = profiles[i % 4](rng, max_depth=rng.choice([2, 3, 3, 4]), stmts=rng.randint(2, 9))
        text = Printer().program(g.program(), TRACE_PRELUDE)
        compare(text, "kgen"); rep["programs"] += 1
        if len(rep["samples"]) < 1 and i == 4:
            rep["samples"].append({"program": text[:400]})
    w_rc.close(); w_arc.close()
    rep["distinct"] = len(rep["distinct"])
    return rep

def _conc_shard(shard, n, tier, seed, rounds, max_ops, bin_path=None, yields=1):
    env = dict(os.environ); env["RUST_BACKTRACE"] = "0"
    if bin_path:
        # ThreadSanitizer reserves terabytes of address space: the worker's address-space limit must be off
        env["TSAN_OPTIONS"] = "halt_on_error=0 exitcode=0"
        env["KV_AS_LIMIT_GIB"] = "0"
    p = subprocess.run([bin_path or binary("arc"), "conc", str(seed * 100 + shard + 1), str(rounds), str(max_ops), str(yields)], stdout=subprocess.PIPE, stderr=subprocess.PIPE, env=env, timeout=3000)
    err = p.stderr.decode("utf-8", "replace")
    try:
        r = json.loads(p.stdout.decode())
    except Exception:
        return {"died": True, "detail": "exit %s: %s" % (p.returncode, err[-400:])}
    r["tsan_reports"] = err.count("WARNING: ThreadSanitizer")
    if r["tsan_reports"]:
        r["tsan_head"] = err[err.find("WARNING: ThreadSanitizer"):][:1500]
    return r

def run(tier, seed):
    chk = Check(PID, tier, seed)
    quick = tier == "quick"
    if not (chk.build("rc") and chk.build("arc")):
        return chk.finish({"evaluations": 0, "distinct_nontrivial": 0, "rule": "", "samples": []})
    cov = {"evaluations": 0, "distinct_nontrivial": 0, "samples": [], "streams": {}, "passenger_observations": [], "passenger_src": []}
    only = os.environ.get("KV_STREAMS")
    if not only or "relation" in only:
        c01.fold(chk, cov, "rc-vs-arc", fan_out(_relation_shard, n_shards=8, tier=tier, seed=seed, budget_s=20 if quick else 300))
    if not only or "conc" in only:
        # few processes at a time: each round already runs up to 8 threads
        shards = fan_out(_conc_shard, n_shards=4, tier=tier, seed=seed, rounds=60 if quick else 1500, max_ops=400 if quick else 2000)
        st = {"rounds": 0, "events": 0, "elements": 0, "schedule_points": 0, "mixes_and_thread_counts": {}}
        for s in shards:
            if "harness_error" in s:
                chk.harness_errors.append(s["harness_error"]); continue
            if s.get("died") and ("memory allocation" in s["detail"] or "out of memory" in s["detail"]):
                chk.inconclusive.append("a concurrency shard ran out of memory: " + s["detail"][:200]); continue
            if s.get("died"):
                chk.violation("conc-death", "the concurrency process died: " + s["detail"], {"detail": s["detail"]}); continue
            for k in ("rounds", "events", "elements", "schedule_points"):
                st[k] += s[k]
            for k, v in s["stats"].items():
                st["mixes_and_thread_counts"][k] = st["mixes_and_thread_counts"].get(k, 0) + v
            for f in s["faults"]:
                chk.violation("conc:%s:%s" % (f["rule"], f["mix"]), "concurrent %s round (%d threads x %d operations, round seed %s): %s - %s" % (f["mix"], f["threads"], f["ops"], f["round_seed"], f["rule"], f["detail"]), f)
        cov["streams"]["concurrent-histories"] = st
        cov["evaluations"] += st["events"] + st["rounds"]
        cov["distinct_nontrivial"] += st["rounds"]
        cov["samples"].append({"round": "list-conservation: each thread runs e.g. `L.push 10000001`, `r 3, L.pop()`, `L.extend (10000002, 10000003, 10000004)`, ...; checked: inserted = removed-as-reported + remaining, exactly once"})
    if not quick and (not only or "tsan" in only):
        ok, log = build("tsan", "release", toolchain="nightly", extra_env={"RUSTFLAGS": "-Zsanitizer=thread"}, extra_args=["-Zbuild-std", "--target", "x86_64-unknown-linux-gnu", "--no-default-features", "--features", "arc"])
        if not ok:
            chk.inconclusive.append("the ThreadSanitizer build failed (sanitizer part skipped): " + log[-300:].replace("\n", " "))
        else:
            tsan_bin = os.path.join(VERIF, "target-tsan", "x86_64-unknown-linux-gnu", "release", "kvrun")
            shards = fan_out(_conc_shard, n_shards=4, tier=tier, seed=seed + 7, rounds=40, max_ops=300, bin_path=tsan_bin)
            st = {"rounds": 0, "events": 0, "tsan_reports": 0}
            for s in shards:
                if "harness_error" in s or s.get("died"):
                    chk.inconclusive.append("a ThreadSanitizer shard did not complete: %s" % (s.get("detail") or s.get("harness_error"))[:200]); continue
                st["rounds"] += s["rounds"]; st["events"] += s["events"]; st["tsan_reports"] += s["tsan_reports"]
                if s["tsan_reports"]:
                    chk.violation("tsan:%s" % sha(s.get("tsan_head", "")[:300]), "ThreadSanitizer reported %d data race(s): %s" % (s["tsan_reports"], s.get("tsan_head", "")[:300]), {"report": s.get("tsan_head")})
                for f in s["faults"]:
                    chk.violation("conc:%s:%s" % (f["rule"], f["mix"]), "concurrent %s round under TSan: %s - %s" % (f["mix"], f["rule"], f["detail"]), f)
            cov["streams"]["thread-sanitizer"] = st
            cov["evaluations"] += st["events"]
    if not quick and (not only or "miri" in only):
        from kv import sanitize
        st = {"rounds": 0, "reports": 0}
        for k, (mix, threads) in enumerate([("list-conservation", 2), ("map-chains", 2), ("list-mixed", 3), ("map-mixed", 2)]):
            out, ub, note = sanitize.run_miri(["conc-round", mix, threads, 8, seed * 10 + k, 0, 1], arc=True, timeout=1800)
            if ub:
                st["reports"] += 1
                chk.violation("miri:%s" % sha(ub[:400]), "Miri reports undefined behaviour / a data race in a concurrent %s round: %s" % (mix, ub[:300]), {"report": ub})
            elif out is None:
                chk.inconclusive.append("a Miri concurrency round did not complete: " + note[:200])
            else:
                st["rounds"] += 1
                for f in out.get("faults", []):
                    chk.violation("conc:%s:%s" % (f.get("rule"), mix), "concurrent %s round under Miri: %s - %s" % (mix, f.get("rule"), f.get("detail")), f)
        cov["streams"]["miri-arc"] = st
        cov["evaluations"] += st["rounds"]
    cov.pop("passenger_observations", None); cov.pop("passenger_src", None)
    cov["rule"] = ("(a) runnable corpus programs (without clocks, random numbers, hashes) and generated programs of four kgen profiles on the rc and the arc worker: identical "
                   "outcome class, stdout, result. (b) rounds of 2 / 3 / 4 / 8 threads x 50-%d single-container operations on one shared list or map, six mixes: list "
                   "conservation (push, insert, pop, remove, extend, reads), list snapshots (extend groups of 3, to_tuple, copy), map chains (insert returning the previous "
                   "value, remove, reads on 4 keys), map snapshots (extend groups, values of the map and of a copy), list-mixed and map-mixed (28 / 23 operation kinds on a small "
                   "oscillating container: index and range reads and writes, insert / remove at an index, resize, fill, sort, reverse, clear, update, get_index, remove_index, "
                   "iteration, unpacking, display, self-comparison - oracle: no host panic, no deadlock, no value nobody wrote); every written value is a unique (thread, counter) id; "
                   "seeded yields / spins at the schedule points before lock acquisitions; watchdog for no-progress. distinct = distinct programs + rounds." % (400 if quick else 2000))
    return chk.finish(cov, assumptions=["interleavings explored = those the OS scheduler and the injected schedule points produce (counted as schedule_points), not all interleavings",
                                         "a concurrent history is recorded at the script boundary (printed results), so the checker judges the system's behaviour, not the instrumentation's order",
                                         "self-referential single-thread operations (l.extend l) are the recorded finding family F-P1 and are not part of the mixes"])
