"""C01 core evaluation. Oracles: (1) reference model (kvmodel) vs the real run of every generated
program; (2) context relation between real runs of the same program at top level, inside a function
and after 60 live locals; (3) bounded-exhaustive operator trees printed with minimal and with full
parentheses, against the model. Passengers: chunk checker, VM monitor, residue, panic capture."""
import itertools, os, random, time
from .common import *
from .modelrun import *
from kv.pool import fan_out
from kvmodel.gen import Gen, GenFn
from kvmodel.printer import Printer, TRACE_PRELUDE

PID = "C01"

def _passengers(rep, r, src):
    for kind, rule, detail in passenger_faults(r):
        rep["passenger"].append({"kind": kind, "rule": rule, "detail": detail[:200], "src": src})
    if r.get("outcome") == "panic":
        rep["passenger"].append({"kind": "panic", "rule": (r.get("panic") or {}).get("signature", "?"), "detail": "", "src": src})
    if r.get("residue"):
        rep["passenger"].append({"kind": "residue", "rule": ";".join(r["residue"]), "detail": "", "src": src})

def _kgen_shard(shard, n, tier, seed, budget_s, features=(), profile="core", n_programs=None, strict_passengers=False):
    w = Worker()
    t_end = time.time() + budget_s
    rep = {"violations": [], "evaluations": 0, "distinct": set(), "samples": [], "model_limit": 0, "passenger": [], "trace_lines": 0,
           "outcomes": {}, "contexts": 0, "programs": 0, "statement_kinds": {}, "hangs": 0}
    i = 0
    while time.time() < t_end and (n_programs is None or i < n_programs):
        i += 1
        rng = random.Random((seed * 1000003 + shard) * 1000003 + i)
        G = {"core": Gen, "fn": GenFn}.get(profile) or getattr(__import__("kvmodel.gen", fromlist=["x"]), profile)
        g = G(rng, max_depth=rng.choice([2, 3, 3, 4]) if tier == "quick" else rng.choice([2, 3, 4, 5]), stmts=rng.randint(2, 10), features=set(features))
        prog = g.program()
        text = Printer().program(prog)
        m = model_outcome(prog)
        rep["programs"] += 1
        if m["kind"] == "limit":
            rep["model_limit"] += 1
            continue
        rep["outcomes"][m["kind"]] = rep["outcomes"].get(m["kind"], 0) + 1
        views = {}
        for cname, src in contexts(text):
            r = w.exec(src, timeout=20, limit_ms=4000)
            rep["evaluations"] += 1
            rep["contexts"] += 1
            if r.get("outcome") == "hang":
                rep["hangs"] += 1
            before = len(rep["passenger"])
            _passengers(rep, r, src)
            if strict_passengers:
                for pz in rep["passenger"][before:]:
                    rep["violations"].append({"key": "%s:%s:%s" % (pz["kind"], pz["rule"][:80], sha(text)), "summary": "%s after/while running a generated program: %s %s" % (pz["kind"], pz["rule"], pz["detail"][:120]),
                                              "case": {"src": src}})
            views[cname] = (real_view(r), src)
            if cname == "top":
                why = agrees(m, r)
                if why:
                    rep["violations"].append({"key": "model:%s" % sha(text), "summary": "model vs real (%s): %s" % (profile, why),
                                              "case": {"src": src, "model": {"kind": m["kind"], "value": m.get("value"), "out": m["out"][-40:]}, "real": real_view(r), "why": why}})
        base = views["top"][0]
        for cname, (v, src) in views.items():
            if canon_view(v) != canon_view(base):
                rep["violations"].append({"key": "context:%s:%s" % (cname, sha(text)), "summary": "context relation: top-level and %s runs of the same program differ" % cname,
                                          "case": {"src_top": views["top"][1], "src_other": src, "top": base, "other": v}})
        if len(m["out"]) >= 1:
            rep["distinct"].add(sha(text))
        rep["trace_lines"] += sum(1 for l in m["out"] if l.startswith("T"))
        if len(rep["samples"]) < 1 and i == 3:
            rep["samples"].append({"program": text[:600], "model_out": m["out"][:8], "model_value": m.get("value")})
    w.close()
    rep["distinct"] = len(rep["distinct"])
    return rep

def canon_view(v):
    cls, out, val = v
    if cls == "compile_error":
        return (cls,)
    if cls == "error":
        # error wording is implementation text; the class and the output up to the error are compared
        return (cls, canon_floats(out))
    return (cls, canon_floats(out), canon_floats(val) if isinstance(val, str) else val)

# ---- operator trees -----------------------------------------------------------------------------
POOL = [("int", 0), ("int", 1), ("int", -1), ("int", 7), ("int", 9223372036854775807), ("float", 0.5), ("float", 2.0), ("float", -1.5),
        ("str", ["a"]), ("str", ["b"]), ("null",), ("bool", True), ("bool", False), ("list", [("int", 1)])]
BINOPS = ["+", "-", "*", "/", "%", "^", "==", "!=", "<", "<=", ">", ">=", "and", "or"]

def _trees(max_ops):
    """All trees with 1..max_ops binary operators over the pool (unary not/neg applied to a sample)."""
    for a in POOL:
        yield ("not", a)
        yield ("neg", a)
    for op in BINOPS:
        for a in POOL:
            for b in POOL:
                yield ("bin", op, a, b)
    if max_ops >= 2:
        for op1 in BINOPS:
            for op2 in BINOPS:
                for a in POOL:
                    for b in POOL:
                        for c in POOL:
                            yield ("bin", op1, ("bin", op2, a, b), c)
                            yield ("bin", op1, a, ("bin", op2, b, c))

def full_parens(e):
    if e[0] == "bin":
        return ("paren", ("bin", e[1], full_parens(e[2]), full_parens(e[3])))
    if e[0] in ("not", "neg"):
        return ("paren", (e[0], full_parens(e[1])))
    return e

def _optree_shard(shard, n, tier, seed, budget_s):
    from kvmodel.interp import Interp
    from kvmodel.values import display, RuntimeErr, ModelLimit
    w = Worker()
    rep = {"violations": [], "evaluations": 0, "distinct": 0, "samples": [], "passenger": [], "trees": 0, "scripts": 0, "errs": 0, "skipped": 0}
    rng = rng_for(seed, "c01-optree", shard)
    keep = 1.0 if tier == "thorough" else 0.06
    batch = []
    t_end = time.time() + budget_s
    def flush():
        if not batch:
            return
        for variant in ("minimal", "full"):
            lines = []
            for k, (tree, want) in enumerate(batch):
                e = tree if variant == "minimal" else full_parens(tree)
                text = Printer().expr(e, 0)
                lines.append("x%d = try\n  %s\ncatch _\n  '#E'\nprint(x%d)\n" % (k % 200, text, k % 200))
            src = "".join(lines)
            r = w.exec(src, timeout=30, limit_ms=10000)
            rep["evaluations"] += 1
            rep["scripts"] += 1
            _passengers(rep, r, src)
            got = canon_floats(r.get("stdout", "")).split("\n")[:-1] if r.get("outcome") == "ok" else None
            if got is None or len(got) != len(batch):
                rep["violations"].append({"key": "optree-batch:%s" % sha(src), "summary": "operator-tree batch did not run to completion: %s %s" % (r.get("outcome"), (r.get("error") or "")[:100]),
                                          "case": {"src": src, "real": real_view(r)}})
                continue
            for (tree, want), g in zip(batch, got):
                if canon_floats(want) != g:
                    e = tree if variant == "minimal" else full_parens(tree)
                    text = Printer().expr(e, 0)
                    rep["violations"].append({"key": "optree:%s:%s" % (variant, text), "summary": "operator tree `%s` (%s parentheses): model %r, real %r" % (text, variant, want, g),
                                              "case": {"src": "print(%s)\n" % text, "model": want, "real": g}})
        batch.clear()
    idx = 0
    for tree in _trees(2):
        idx += 1
        if idx % n != shard:
            continue
        two = tree[0] == "bin" and (tree[2][0] == "bin" or tree[3][0] == "bin")
        if two and keep < 1.0 and rng.random() > keep:
            continue
        if time.time() > t_end:
            rep["budget_exhausted"] = True
            break
        it = Interp(2000)
        try:
            v = it.ev(tree, {})
            if isinstance(v, str):
                want = v
            else:
                want = display(v, False, it)
            if want == "#E":
                continue
        except RuntimeErr:
            want = "#E"
            rep["errs"] += 1
        except ModelLimit:
            rep["skipped"] += 1
            continue
        rep["trees"] += 1
        rep["distinct"] += 1
        batch.append((tree, want))
        if len(rep["samples"]) < 1 and two:
            rep["samples"].append({"tree": Printer().expr(tree, 0), "model": want})
        if len(batch) >= 200:
            flush()
    flush()
    w.close()
    return rep

def fold(chk, cov, name, shards):
    st = {}
    for s in shards:
        chk.merge_shard(s)
        if "harness_error" in s:
            continue
        for k, v in s.items():
            if isinstance(v, (int, float)) and not isinstance(v, bool):
                st[k] = st.get(k, 0) + v
        for k in ("outcomes",):
            if k in s:
                d = st.setdefault(k, {})
                for kk, vv in s[k].items():
                    d[kk] = d.get(kk, 0) + vv
        if s.get("budget_exhausted"):
            st["budget_exhausted"] = True
        cov["samples"] += s.get("samples", [])[:1] if len(cov["samples"]) < 6 else []
        for p in s.get("passenger", [])[:50]:
            cov["passenger_observations"].append({"kind": p["kind"], "rule": p["rule"], "detail": p["detail"]})
            if len(cov["passenger_src"]) < 5:
                cov["passenger_src"].append(p["src"][:800])
    cov["streams"][name] = st
    cov["evaluations"] += st.get("evaluations", 0)
    cov["distinct_nontrivial"] += st.get("distinct", 0)

def run(tier, seed):
    chk = Check(PID, tier, seed)
    if not chk.build():
        return chk.finish({"evaluations": 0, "distinct_nontrivial": 0, "rule": "", "samples": []})
    quick = tier == "quick"
    cov = {"evaluations": 0, "distinct_nontrivial": 0, "samples": [], "streams": {}, "passenger_observations": [], "passenger_src": []}
    w = Worker()
    cov["witnesses_replayed"] = replay_witnesses(chk, w)
    w.close()
    only = os.environ.get("KV_STREAMS")
    if not only or "kgen" in only:
        fold(chk, cov, "kgen-core", fan_out(_kgen_shard, tier=tier, seed=seed, budget_s=22 if quick else 420))
    if not only or "optree" in only:
        fold(chk, cov, "operator-trees", fan_out(_optree_shard, tier=tier, seed=seed, budget_s=60 if quick else 1200))
    cov["passenger_observations"] = cov["passenger_observations"][:30]
    cov["rule"] = ("kgen core profile: typed, terminating programs over literals, arithmetic/comparison/logic, chained comparisons with traced operands, "
                   "(compound) assignment to locals / indices / map keys, containers, ranges, strings with interpolation, indexing and slicing, if / else if / "
                   "else, switch, while, until, for, loop, break (with value) and continue; each program is evaluated by the reference model and run by the "
                   "real implementation at top level, inside a function and after 60 live locals (model vs real; real vs real). Operator trees: every tree "
                   "with <= 2 binary operators over a 14-value pool (%s of the two-operator trees), printed with minimal and with full parentheses. "
                   "distinct = distinct program texts that printed at least one line / distinct trees." % ("complete enumeration" if not quick else "seeded 6% slice"))
    return chk.finish(cov, assumptions=["the reference model (kvmodel) is the specification for the modelled subset; calibrated on 40 000 programs of the pinned tree with zero residual disagreements",
                                         "recorded defect shapes are avoided by generation (SG-A1: assignment to a live local whose right-hand side reads it and is not register-transparent)",
                                         "float tokens are compared by value (Rust and Python break last-digit ties differently)"])
