//! C19 (b): single container operations issued concurrently from several runtimes that share a list / map are atomic
//! (arc build only). Histories are recorded at the script boundary (each operation prints its result into a per-thread
//! buffer) and checked offline: conservation / exactly-once for lists, per-key exactly-once chains for maps, whole
//! groups in snapshots, termination (deadlock watchdog), no panics.

use crate::exec::OutputCapture;
use crate::serdecheck::Rng;
use koto::prelude::*;
use serde_json::{Value, json};
use std::collections::{HashMap, HashSet};
use std::sync::atomic::{AtomicU64, Ordering};
use std::sync::mpsc;
use std::time::{Duration, Instant};

static SCHED_SEED: AtomicU64 = AtomicU64::new(0x1234_5678);
static CONTENDED: AtomicU64 = AtomicU64::new(0);

fn sched_point() {
    // xorshift on a shared atomic: cheap, racy on purpose (it only decides whether to yield)
    let mut x = SCHED_SEED.load(Ordering::Relaxed);
    x ^= x << 13;
    x ^= x >> 7;
    x ^= x << 17;
    SCHED_SEED.store(x, Ordering::Relaxed);
    match x % 16 {
        0 | 1 => std::thread::yield_now(),
        2 => {
            for _ in 0..(x >> 8) % 200 {
                std::hint::spin_loop();
            }
        }
        _ => {}
    }
    CONTENDED.fetch_add(1, Ordering::Relaxed);
}

#[derive(Clone, Copy, PartialEq)]
pub enum Mix {
    ListConservation,
    ListSnapshots,
    MapChains,
    MapSnapshots,
    // wide operation surface on a small, oscillating container; oracle: no host panic, no
    // deadlock, every observed number was written by some thread (no phantom values)
    ListMixed,
    MapMixed,
}

struct ThreadPlan {
    script: String,
    // ids this thread inserts (op index -> ids), known from the script
    inserted: Vec<(usize, Vec<i64>)>,
}

const GROUP: i64 = 3;

fn plan(mix: Mix, thread: usize, ops: usize, rng: &mut Rng) -> ThreadPlan {
    let mut script = String::from("r = |i, v| print '{i}|{v}'\n");
    let mut inserted = Vec::new();
    let mut counter: i64 = 0;
    let base = (thread as i64 + 1) * 10_000_000;
    let mut next_id = |counter: &mut i64| {
        *counter += 1;
        base + *counter
    };
    for i in 0..ops {
        match mix {
            Mix::ListConservation => match rng.below(12) {
                // operations that only permute the list: the multiset of elements is conserved across them
                10 => script.push_str("L.sort()\n"),
                11 => script.push_str("L.reverse()\n"),
                0..=2 => {
                    let id = next_id(&mut counter);
                    script.push_str(&format!("L.push {id}\n"));
                    inserted.push((i, vec![id]));
                }
                3 => {
                    let id = next_id(&mut counter);
                    script.push_str(&format!("try\n  L.insert 0, {id}\n  r {i}, 'ins'\ncatch _\n  r {i}, 'E'\n"));
                    inserted.push((i, vec![id]));
                }
                4 | 5 => script.push_str(&format!("r {i}, L.pop()\n")),
                6 => script.push_str(&format!("try\n  r {i}, L.remove 0\ncatch _\n  r {i}, 'E'\n")),
                7 => {
                    let ids: Vec<i64> = (0..GROUP).map(|_| next_id(&mut counter)).collect();
                    script.push_str(&format!("L.extend ({}, {}, {})\n", ids[0], ids[1], ids[2]));
                    inserted.push((i, ids));
                }
                8 => script.push_str(&format!("x = L.get 0\nx = size L\nx = L.contains {}\nx = L.first()\n", base + 1)),
                _ => script.push_str("x = L.to_tuple()\nx = copy L\nx = L.last()\n"),
            },
            Mix::ListSnapshots => match rng.below(4) {
                0 | 1 => {
                    let ids: Vec<i64> = (0..GROUP).map(|_| next_id(&mut counter)).collect();
                    // every kind of iterable argument: tuple, list, range, iterator, adaptor, generator
                    match rng.below(6) {
                        0 => script.push_str(&format!("L.extend ({}, {}, {})\n", ids[0], ids[1], ids[2])),
                        1 => script.push_str(&format!("L.extend [{}, {}, {}]\n", ids[0], ids[1], ids[2])),
                        2 => script.push_str(&format!("L.extend {}..{}\n", ids[0], ids[2] + 1)),
                        3 => script.push_str(&format!("L.extend ({}, {}, {}).iter()\n", ids[0], ids[1], ids[2])),
                        4 => script.push_str(&format!("L.extend (0..3).each(|k| {} + k)\n", ids[0])),
                        _ => script.push_str(&format!("L.extend (||\n  yield {}\n  yield {}\n  yield {}\n)()\n", ids[0], ids[1], ids[2])),
                    }
                    inserted.push((i, ids));
                }
                2 => script.push_str(&format!("r {i}, L.to_tuple()\n")),
                _ => script.push_str(&format!("r {i}, copy L\n")),
            },
            Mix::MapChains => {
                let key = format!("k{}", rng.below(4));
                match rng.below(8) {
                    0..=3 => {
                        let id = next_id(&mut counter);
                        script.push_str(&format!("r {i}, ('{key}', M.insert('{key}', {id}))\n"));
                        inserted.push((i, vec![id]));
                    }
                    4 | 5 => script.push_str(&format!("r {i}, ('{key}', M.remove('{key}'))\n")),
                    6 => script.push_str(&format!("x = M.get '{key}'\nx = M.contains_key '{key}'\nx = size M\n")),
                    _ => script.push_str("x = M.keys().to_tuple()\nx = copy M\nx = M.values().to_list()\n"),
                }
            }
            Mix::ListMixed => {
                let id = next_id(&mut counter);
                let body = match rng.below(28) {
                    24 => format!("r {i}, 'selfeq:{{L == L}}'"),
                    25 => format!("r {i}, '{{L}}'"),
                    26 => format!("r {i}, L.each(|x| x).to_tuple()"),
                    27 => format!("r {i}, L.iter().chain(L.iter()).count()"),
                    0..=3 => { inserted.push((i, vec![id])); format!("L.push {id}") }
                    4..=6 => format!("r {i}, L.pop()"),
                    7 => format!("r {i}, L[0]"),
                    8 => format!("r {i}, L[0..1]"),
                    9 => format!("r {i}, L[1..]"),
                    10 => format!("r {i}, L[..2]"),
                    11 => { inserted.push((i, vec![id])); format!("L[0] = {id}") }
                    12 => { inserted.push((i, vec![id])); format!("L.insert 1, {id}") }
                    13 => format!("r {i}, L.remove 1"),
                    14 => { inserted.push((i, vec![id])); format!("L.resize 2, {id}") }
                    15 => { inserted.push((i, vec![id])); format!("L.fill {id}") }
                    16 => "L.reverse()".to_string(),
                    17 => "L.sort()".to_string(),
                    18 => "L.clear()".to_string(),
                    19 => format!("r {i}, (L.first(), L.last(), L.get(1), L.get(5, 'd'))"),
                    20 => format!("r {i}, L.to_tuple()"),
                    21 => format!("for x in L\n    r {i}, x"),
                    22 => format!("match L\n    (a, b, ...) then r {i}, (a, b)\n    (a) then r {i}, a\n    () then r {i}, 'empty'"),
                    _ => format!("r {i}, (L.contains({}), L.is_empty(), size L)", base + 1),
                };
                script.push_str(&format!("try\n  {}\ncatch _\n  r {i}, 'E'\n", body.replace("\n    ", "\n      ")));
            }
            Mix::MapMixed => {
                let id = next_id(&mut counter);
                let key = format!("k{}", rng.below(3));
                let body = match rng.below(23) {
                    20 => format!("r {i}, 'selfeq:{{M == M}}'"),
                    21 => format!("r {i}, '{{M}}'"),
                    22 => format!("r {i}, M.each(|(k, v)| v).to_tuple()"),
                    0..=2 => { inserted.push((i, vec![id])); format!("r {i}, M.insert('{key}', {id})") }
                    3 | 4 => format!("r {i}, M.remove('{key}')"),
                    5 => { inserted.push((i, vec![id])); format!("M.{key} = {id}") }
                    6 => format!("r {i}, M.{key}"),
                    7 => format!("r {i}, M[0]"),
                    8 => format!("r {i}, M.get_index 1"),
                    9 => { inserted.push((i, vec![id])); format!("M[0] = ('{key}', {id})") }
                    10 => { inserted.push((i, vec![id])); format!("r {i}, M.update('{key}', |x| {id})") }
                    11 => "M.sort()".to_string(),
                    12 => "M.clear()".to_string(),
                    13 => format!("r {i}, M.get('{key}', 'd')"),
                    14 => format!("r {i}, M.values().to_tuple()"),
                    15 => format!("r {i}, M.keys().to_tuple()"),
                    16 => format!("for k, v in M\n    r {i}, v"),
                    17 => { inserted.push((i, vec![id])); format!("M.extend {{{key}: {id}}}") }
                    18 => format!("r {i}, (M.contains_key('{key}'), M.is_empty(), size M)"),
                    _ => format!("r {i}, M.remove_index 0"),
                };
                script.push_str(&format!("try\n  {}\ncatch _\n  r {i}, 'E'\n", body.replace("\n    ", "\n      ")));
            }
            Mix::MapSnapshots => match rng.below(4) {
                0 | 1 => {
                    let ids: Vec<i64> = (0..GROUP).map(|_| next_id(&mut counter)).collect();
                    match rng.below(3) {
                        0 => script.push_str(&format!("M.extend {{'a{}': {}, 'b{}': {}, 'c{}': {}}}\n", ids[0], ids[0], ids[0], ids[1], ids[0], ids[2])),
                        1 => script.push_str(&format!("M.extend [('a{}', {}), ('b{}', {}), ('c{}', {})]\n", ids[0], ids[0], ids[0], ids[1], ids[0], ids[2])),
                        _ => script.push_str(&format!("M.extend (0..3).each(|k| ('k{{k}}_{}', {} + k))\n", ids[0], ids[0])),
                    }
                    inserted.push((i, ids));
                }
                2 => script.push_str(&format!("r {i}, M.values().to_tuple()\n")),
                _ => script.push_str(&format!("r {i}, (copy M).values().to_tuple()\n")),
            },
        }
    }
    ThreadPlan { script, inserted }
}

fn parse_ints(text: &str) -> Vec<i64> {
    let mut out = Vec::new();
    let mut cur = String::new();
    for c in text.chars() {
        if c.is_ascii_digit() || (c == '-' && cur.is_empty()) {
            cur.push(c);
        } else {
            if let Ok(n) = cur.parse::<i64>() {
                out.push(n);
            }
            cur.clear();
        }
    }
    if let Ok(n) = cur.parse::<i64>() {
        out.push(n);
    }
    out
}

pub static LAST_PANIC_LOCATION: std::sync::Mutex<String> = std::sync::Mutex::new(String::new());

pub fn install_panic_hook() {
    std::panic::set_hook(Box::new(|info| {
        if let (Some(l), Ok(mut g)) = (info.location(), LAST_PANIC_LOCATION.lock()) {
            *g = format!("{}:{}", l.file(), l.line());
        }
    }));
}

pub fn mix_from_name(name: &str) -> Option<Mix> {
    Some(match name {
        "list-conservation" => Mix::ListConservation,
        "list-snapshots" => Mix::ListSnapshots,
        "map-chains" => Mix::MapChains,
        "map-snapshots" => Mix::MapSnapshots,
        "list-mixed" => Mix::ListMixed,
        "map-mixed" => Mix::MapMixed,
        _ => return None,
    })
}

pub fn run_round(mix: Mix, threads: usize, ops: usize, seed: u64, inject_yields: bool) -> std::result::Result<Value, Value> {
    let shared_list = KList::default();
    let shared_map = KMap::new();
    let mut rng = Rng::new(seed);
    let plans: Vec<ThreadPlan> = (0..threads).map(|t| plan(mix, t, ops, &mut rng)).collect();
    let (tx, rx) = mpsc::channel::<(usize, std::result::Result<String, String>)>();
    let start = Instant::now();
    let mut handles = Vec::new();
    for (t, p) in plans.iter().enumerate() {
        let script = p.script.clone();
        let list = shared_list.clone();
        let map = shared_map.clone();
        let tx = tx.clone();
        handles.push(std::thread::Builder::new().stack_size(64 << 20).spawn(move || {
            if inject_yields {
                koto_memory::verif::set_schedule_point(Some(sched_point));
            }
            let out = OutputCapture::default();
            let mut koto = Koto::with_settings(KotoSettings {
                run_tests: false,
                vm_settings: KotoVmSettings { stdout: make_ptr!(out.clone()), stderr: make_ptr!(out.clone()), ..Default::default() },
            });
            koto.prelude().insert("L", KValue::List(list));
            koto.prelude().insert("M", KValue::Map(map));
            let r = std::panic::catch_unwind(std::panic::AssertUnwindSafe(|| koto.compile_and_run(script.as_str()).map(|_| ()).map_err(|e| e.to_string())));
            let msg = match r {
                Ok(Ok(())) => Ok(out.take()),
                Ok(Err(e)) => Err(format!("script error: {}", e.lines().next().unwrap_or(""))),
                Err(p) => {
                    let m = p.downcast_ref::<String>().cloned().or_else(|| p.downcast_ref::<&str>().map(|s| s.to_string())).unwrap_or_default();
                    Err(format!("panic in a worker thread: {m} @ {}", LAST_PANIC_LOCATION.lock().map(|l| l.clone()).unwrap_or_default()))
                }
            };
            tx.send((t, msg)).ok();
        }).unwrap());
    }
    drop(tx);
    let mut outputs: Vec<Option<String>> = vec![None; threads];
    // the watchdog counts wall-clock time: under Miri (interpreted, about four orders of magnitude slower) it is
    // left to the caller's own generous timeout, whose firing is inconclusive
    let deadline = if cfg!(miri) { Duration::from_secs(6 * 3600) } else { Duration::from_secs(30 + (ops as u64) / 20) };
    for _ in 0..threads {
        match rx.recv_timeout(deadline.saturating_sub(start.elapsed()).max(Duration::from_millis(1))) {
            Ok((t, Ok(text))) => outputs[t] = Some(text),
            Ok((t, Err(e))) => return Err(json!({"rule": "thread-failure", "detail": format!("thread {t}: {e}")})),
            Err(_) => return Err(json!({"rule": "no-progress", "detail": format!("{} of {threads} threads did not finish within {:?} (deadlock watchdog)", outputs.iter().filter(|o| o.is_none()).count(), deadline)})),
        }
    }
    for h in handles {
        h.join().ok();
    }
    // ---- offline checks over the recorded history ----
    let mut inserted_all: HashMap<i64, usize> = HashMap::new();
    for p in &plans {
        for (_, ids) in &p.inserted {
            for id in ids {
                *inserted_all.entry(*id).or_default() += 1;
            }
        }
    }
    let lines: Vec<(usize, usize, String)> = outputs.iter().enumerate().flat_map(|(t, o)| {
        o.as_deref().unwrap_or("").lines().filter_map(move |l| l.split_once('|').and_then(|(i, v)| i.parse::<usize>().ok().map(|i| (t, i, v.to_string())))).collect::<Vec<_>>()
    }).collect();
    let events = lines.len();
    match mix {
        Mix::ListConservation => {
            let mut removed: HashMap<i64, usize> = HashMap::new();
            let mut failed_inserts: HashSet<(usize, usize)> = HashSet::new();
            for (t, i, v) in &lines {
                if v == "E" && plans[*t].inserted.iter().any(|(k, _)| k == i) {
                    failed_inserts.insert((*t, *i));
                }
                if v != "E" && v != "ins" && v != "null" {
                    for id in parse_ints(v) {
                        *removed.entry(id).or_default() += 1;
                    }
                }
            }
            let mut expected: HashMap<i64, i64> = HashMap::new();
            for (t, p) in plans.iter().enumerate() {
                for (i, ids) in &p.inserted {
                    if failed_inserts.contains(&(t, *i)) {
                        continue;
                    }
                    for id in ids {
                        *expected.entry(*id).or_default() += 1;
                    }
                }
            }
            for (id, n) in &removed {
                if !inserted_all.contains_key(id) {
                    return Err(json!({"rule": "phantom-element", "detail": format!("{id} was popped / removed but never inserted")}));
                }
                if *n > 1 {
                    return Err(json!({"rule": "duplicated-element", "detail": format!("{id} was reported removed {n} times")}));
                }
                *expected.entry(*id).or_default() -= 1;
            }
            for v in shared_list.data().iter() {
                if let KValue::Number(n) = v {
                    *expected.entry(i64::from(*n)).or_default() -= 1;
                }
            }
            if let Some((id, n)) = expected.iter().find(|(_, n)| **n != 0) {
                return Err(json!({"rule": "conservation", "detail": format!("element {id}: inserted - removed - remaining = {n} (lost or duplicated update)")}));
            }
        }
        Mix::ListSnapshots | Mix::MapSnapshots => {
            // groups are inserted by one operation: a snapshot holds whole groups only
            let mut group_of: HashMap<i64, i64> = HashMap::new();
            for p in &plans {
                for (_, ids) in &p.inserted {
                    for id in ids {
                        group_of.insert(*id, ids[0]);
                    }
                }
            }
            for (t, i, v) in &lines {
                let ids = parse_ints(v);
                let mut count: HashMap<i64, i64> = HashMap::new();
                for id in &ids {
                    match group_of.get(id) {
                        Some(g) => *count.entry(*g).or_default() += 1,
                        None => return Err(json!({"rule": "phantom-element", "detail": format!("snapshot of thread {t} op {i} holds {id} which nobody inserted")})),
                    }
                }
                if let Some((g, n)) = count.iter().find(|(_, n)| **n != GROUP) {
                    return Err(json!({"rule": "torn-snapshot", "detail": format!("snapshot of thread {t} op {i} holds {n} of the {GROUP} elements of the group starting at {g}")}));
                }
                if mix == Mix::ListSnapshots {
                    // appended groups are contiguous
                    for w in ids.chunks(GROUP as usize) {
                        if w.len() == GROUP as usize && !(group_of[&w[0]] == w[0] && w[1] == w[0] + 1 && w[2] == w[0] + 2) {
                            return Err(json!({"rule": "torn-snapshot", "detail": format!("snapshot of thread {t} op {i}: group elements are interleaved: {w:?}")}));
                        }
                    }
                }
            }
            let final_len = if mix == Mix::ListSnapshots { shared_list.len() } else { shared_map.len() };
            if final_len as i64 != inserted_all.len() as i64 {
                return Err(json!({"rule": "conservation", "detail": format!("{} elements were inserted, the container holds {final_len}", inserted_all.len())}));
            }
        }
        Mix::ListMixed | Mix::MapMixed => {
            for (t, i, v) in &lines {
                // the container compared with itself: both sides are one state of it (the elements are numbers / null)
                if v == "selfeq:false" {
                    return Err(json!({"rule": "torn-comparison", "detail": format!("thread {t} op {i}: the shared container compared unequal to itself")}));
                }
                for id in parse_ints(v) {
                    // small numbers are sizes / key digits; ids start at 10^7
                    if id >= 10_000_000 && !inserted_all.contains_key(&id) {
                        return Err(json!({"rule": "phantom-element", "detail": format!("thread {t} op {i} observed {id} which nobody wrote")}));
                    }
                }
            }
            let in_container: Vec<KValue> = if mix == Mix::ListMixed { shared_list.data().iter().cloned().collect() } else { shared_map.data().values().cloned().collect() };
            for v in in_container {
                match v {
                    KValue::Number(n) if inserted_all.contains_key(&i64::from(n)) => {}
                    other => return Err(json!({"rule": "phantom-element", "detail": format!("the container finally holds {:?} which nobody wrote", other.type_as_string())})),
                }
            }
        }
        Mix::MapChains => {
            // per key: every written id ends up exactly once as: returned by a later insert, returned by a remove, or final
            let mut written: HashMap<String, HashSet<i64>> = HashMap::new();
            let mut key_of_op: HashMap<(usize, usize), String> = HashMap::new();
            let mut accounted: HashMap<i64, usize> = HashMap::new();
            for (t, i, v) in &lines {
                // v = ('k1', 123) or ('k1', null)
                let key = v.split('\'').nth(1).unwrap_or("").to_string();
                key_of_op.insert((*t, *i), key.clone());
                let ids = parse_ints(&v[v.find(',').map(|x| x + 1).unwrap_or(0)..]);
                for id in ids {
                    *accounted.entry(id).or_default() += 1;
                    written.entry(format!("ret:{key}")).or_default().insert(id);
                }
            }
            for (t, p) in plans.iter().enumerate() {
                for (i, ids) in &p.inserted {
                    if let Some(key) = key_of_op.get(&(t, *i)) {
                        written.entry(key.clone()).or_default().extend(ids.iter().copied());
                    } else {
                        return Err(json!({"rule": "missing-event", "detail": format!("thread {t} op {i} produced no output")}));
                    }
                }
            }
            for (k, v) in shared_map.data().iter() {
                if let (KValue::Str(k), KValue::Number(n)) = (k.value(), v) {
                    let id = i64::from(*n);
                    *accounted.entry(id).or_default() += 1;
                    if !written.get(k.as_str()).is_some_and(|w| w.contains(&id)) {
                        return Err(json!({"rule": "wrong-key", "detail": format!("key {k} finally holds {id} which was never written to it")}));
                    }
                }
            }
            for (key, ids) in written.iter().filter(|(k, _)| k.starts_with("ret:")) {
                let k = &key[4..];
                for id in ids {
                    if !written.get(k).is_some_and(|w| w.contains(id)) {
                        return Err(json!({"rule": "wrong-key", "detail": format!("an operation on key {k} returned {id} which was never written to that key")}));
                    }
                }
            }
            for id in inserted_all.keys() {
                match accounted.get(id).copied().unwrap_or(0) {
                    1 => {}
                    0 => return Err(json!({"rule": "lost-update", "detail": format!("{id} was written but is neither the final value of its key nor reported as overwritten / removed")})),
                    n => return Err(json!({"rule": "duplicated-element", "detail": format!("{id} is accounted for {n} times")})),
                }
            }
        }
    }
    Ok(json!({"events": events, "elements": inserted_all.len(), "wall_ms": start.elapsed().as_millis() as u64}))
}

pub fn run(seed: u64, rounds: u64, max_ops: usize, inject_yields: bool) -> Value {
    install_panic_hook();
    let mut rng = Rng::new(seed ^ 0xC19);
    let mut faults = Vec::new();
    let mut stats: HashMap<String, u64> = HashMap::new();
    let mut events = 0u64;
    let mut elements = 0u64;
    let mut rounds_run = 0u64;
    for r in 0..rounds {
        rounds_run += 1;
        let mix = [Mix::ListConservation, Mix::ListSnapshots, Mix::MapChains, Mix::MapSnapshots, Mix::ListMixed, Mix::MapMixed][(r % 6) as usize];
        let threads = [2usize, 3, 4, 8][rng.below(4) as usize];
        let mut ops = 50 + rng.below((max_ops.max(51) - 50) as u64) as usize;
        if matches!(mix, Mix::ListSnapshots | Mix::MapSnapshots) {
            // every snapshot is recorded whole: quadratic in the number of operations
            ops = ops.min(300);
        }
        let name = match mix {
            Mix::ListConservation => "list-conservation",
            Mix::ListSnapshots => "list-snapshots",
            Mix::MapChains => "map-chains",
            Mix::MapSnapshots => "map-snapshots",
            Mix::ListMixed => "list-mixed",
            Mix::MapMixed => "map-mixed",
        };
        *stats.entry(format!("rounds:{name}")).or_default() += 1;
        *stats.entry(format!("threads:{threads}")).or_default() += 1;
        let round_seed = seed.wrapping_mul(1_000_003).wrapping_add(r);
        match run_round(mix, threads, ops, round_seed, inject_yields) {
            Ok(v) => {
                events += v["events"].as_u64().unwrap_or(0);
                elements += v["elements"].as_u64().unwrap_or(0);
            }
            Err(mut f) => {
                if let Value::Object(m) = &mut f {
                    m.insert("mix".into(), json!(name));
                    m.insert("threads".into(), json!(threads));
                    m.insert("ops".into(), json!(ops));
                    m.insert("round_seed".into(), json!(round_seed));
                }
                // after a deadlock the stuck threads keep their containers and stacks: the process is not reused
                let stuck = f["rule"] == "no-progress";
                faults.push(f);
                if stuck || faults.len() >= 10 {
                    break;
                }
            }
        }
    }
    let stats: serde_json::Map<String, Value> = stats.into_iter().map(|(k, v)| (k, json!(v))).collect();
    json!({"rounds": rounds_run, "events": events, "elements": elements, "schedule_points": CONTENDED.load(Ordering::Relaxed), "faults": faults, "stats": Value::Object(stats)})
}
