"""C17, host-facing operation API: `KotoVm::run_unary_op / run_binary_op / run_read_op / run_write_op / call_function / make_iterator`
(reached through the harness prelude function `host_op`) must dispatch exactly like the script-level operation: same metakey calls
with the same operands in the same order, same result, same error class. Relational monitor - no model involved."""
from kv.worker import Worker
from .common import sha, panic_key

PRELUDE = """log = []
note = |s|
  log.push s
  null
mk = |tag, mode|
  r = |v|
    match mode
      'ret' then v
      'unimpl' then throw koto.unimplemented
      else throw 'boom'
  m =
    tag: tag
    @type: tag
    @+: |o|
      note '{tag}.@+({koto.type o})'
      r 101
    @-: |o|
      note '{tag}.@-({koto.type o})'
      r 102
    @*: |o|
      note '{tag}.@*({koto.type o})'
      r 103
    @/: |o|
      note '{tag}.@/({koto.type o})'
      r 104
    @%: |o|
      note '{tag}.@%({koto.type o})'
      r 105
    @^: |o|
      note '{tag}.@^({koto.type o})'
      r 106
    @+=: |o|
      note '{tag}.@+=({koto.type o})'
      r 111
    @-=: |o|
      note '{tag}.@-=({koto.type o})'
      r 112
    @<: |o|
      note '{tag}.@<({koto.type o})'
      r true
    @==: |o|
      note '{tag}.@==({koto.type o})'
      r false
    @negate: ||
      note '{tag}.@negate()'
      r 107
    @size: ||
      note '{tag}.@size()'
      r 3
    @index: |i|
      note '{tag}.@index({i})'
      r 108
    @index_assign: |i, v|
      note '{tag}.@index_assign({i}, {v})'
      r null
    @access: |k|
      note '{tag}.@access({k})'
      r 109
    @access_assign: |k, v|
      note '{tag}.@access_assign({k}, {v})'
      r null
    @call: |x, y|
      note '{tag}.@call({x}, {y})'
      r 110
    @display: ||
      note '{tag}.@display()'
      r 'shown-{tag}'
    @iterator: ||
      note '{tag}.@iterator()'
      r [7, 8]
  m
mkr = |tag, mode|
  r = |v|
    match mode
      'ret' then v
      'unimpl' then throw koto.unimplemented
      else throw 'boom'
  m =
    tag: tag
    @type: tag
    @r+: |o|
      note '{tag}.@r+({koto.type o})'
      r 201
    @r-: |o|
      note '{tag}.@r-({koto.type o})'
      r 202
    @r*: |o|
      note '{tag}.@r*({koto.type o})'
      r 203
    @r/: |o|
      note '{tag}.@r/({koto.type o})'
      r 204
    @r%: |o|
      note '{tag}.@r%({koto.type o})'
      r 205
    @r^: |o|
      note '{tag}.@r^({koto.type o})'
      r 206
  m
nx = ||
  n: 0
  @type: 'N'
  @next: ||
    note 'N.@next()'
    self.n += 1
    if self.n < 3 then self.n else null
show = |v|
  t = koto.type v
  if t == 'A' or t == 'U' or t == 'T' or t == 'B' or t == 'N' then t else '{v:?}'
a = mk 'A', 'ret'
u = mk 'U', 'unimpl'
t = mk 'T', 'throw'
b = mkr 'B', 'ret'
run = |f|
  log.clear()
  r = try
    show f()
  catch e
    'E'
  (r, log.to_tuple())
"""

PLAIN = ["5", "2.5", "'str'", "[1, 2, 3]", "(1, 2)", "{k: 1}", "(1..3)", "null", "true"]
OBJS = ["a", "u", "t", "b"]
BIN = ["+", "-", "*", "/", "%", "^", "<", "<=", ">", ">=", "==", "!="]
CMP = ["+=", "-=", "*="]

def cases():
    ops = OBJS + PLAIN
    for op in BIN:
        for l in ops:
            for r in ops:
                if l in OBJS or r in OBJS or (l in PLAIN[:3] and r in PLAIN[:3]):
                    yield ("binary %s" % op, "|| %s %s %s" % (l, op, r), "|| host_op '%s', %s, %s" % (op, l, r))
    for op in CMP:
        for l in ops:
            for r in ("5", "a", "b", "'s'", "[1]"):
                # with a Koto @op= overload the script keeps the left operand whatever the overload returns, the value the host
                # API hands back in that case is not specified: only the metakey calls and the error class are compared there
                tail = ("\n  0", "\n  0") if l in OBJS else ("\n  x", "")
                yield ("compound %s" % op, "||\n  x = %s\n  x %s %s%s" % (l, op, r, tail[0]), "||\n  x = host_op '%s', %s, %s%s" % (op, l, r, tail[1] if tail[1] else "\n  x"))
    for v in ops:
        yield ("negate", "|| -%s" % v, "|| host_op 'negate', %s" % v)
        yield ("size", "|| size %s" % v, "|| host_op 'size', %s" % v)
        yield ("display", "||\n  y = %s\n  '{y}'" % v, "|| host_op 'display', %s" % v)
        yield ("to_string", "||\n  y = %s\n  '{y}'" % v, "|| host_op 'to_string', %s" % v)
        yield ("debug", "||\n  y = %s\n  '{y:?}'" % v, "|| host_op 'debug', %s" % v)
        if v not in ("5", "2.5", "null", "true"):      # single values: `for` iterates once, the public make_iterator expects an iterable (documented in the source)
            yield ("iterate", "||\n  out = []\n  for x in %s\n    out.push x\n  out.to_tuple()" % v, "|| host_op 'collect', %s" % v)
        yield ("call", "|| (%s)(1, 2)" % v, "|| host_op 'call', %s, 1, 2" % v)
        for i in ("0", "1", "-1", "7", "'k'", "0..2", "a", "null"):
            yield ("index", "|| (%s)[%s]" % (v, i), "|| host_op 'index', %s, %s" % (v, i))
            # the container after the write is the result that is compared
            yield ("index_assign", "||\n  y = %s\n  y[%s] = 42\n  y" % (v, i), "||\n  y = %s\n  host_op 'index_assign', y, %s, 42\n  y" % (v, i))
        for k in ("k", "tag", "zz"):
            yield ("access", "|| (%s).%s" % (v, k), "|| host_op 'access', %s, '%s'" % (v, k))
            yield ("access_assign", "||\n  y = %s\n  y.%s = 42\n  y" % (v, k), "||\n  y = %s\n  host_op 'access_assign', y, '%s', 42\n  y" % (v, k))
    yield ("next", "||\n  y = nx()\n  (iterator.next(y).get(), 0)", "||\n  y = nx()\n  (host_op('next', y), 0)")

def run_api(chk, cov):
    w = Worker()
    st = {"cases": 0, "agreeing_with_metakey_calls": 0, "agreeing_errors": 0, "classes": {}}
    batch = list(cases())
    for i in range(0, len(batch), 40):
        part = batch[i:i + 40]
        src = PRELUDE + "".join("s1 = run %s\ns2 = run %s\nprint '#%d|{s1}|{s2}'\n" % (s.replace("\n", "\n  ") if False else s, h, k) for k, (_, s, h) in enumerate(part))
        r = w.exec(src, timeout=60, limit_ms=20000)
        if r.get("panic"):
            chk.violation(panic_key(r), "panic in the host operation API grid: %s" % r["panic"].get("message", "")[:100], {"src": src}); continue
        if r.get("outcome") == "compile_error":
            chk.harness_errors.append("host operation API grid: the batch does not compile: " + (r.get("error") or "")[:200]); continue
        lines = {}
        for l in (r.get("stdout") or "").split("\n"):
            if l.startswith("#") and "|" in l:
                k, s1, s2 = l[1:].split("|", 2)[0], None, None
                rest = l.split("|", 1)[1]
                lines[int(k)] = rest
        for k, (cls, s, h) in enumerate(part):
            st["cases"] += 1
            st["classes"][cls] = st["classes"].get(cls, 0) + 1
            got = lines.get(k)
            if got is None:
                chk.violation("hostapi-missing:%s" % sha(s + h), "host operation API case produced no line (%s): %s" % (cls, (r.get("error") or "")[:120]), {"src": src, "script": s, "host": h}); continue
            half = len(got) // 2
            s1, s2 = got[:half], got[half + 1:]
            if len(got) % 2 == 0 or got[half] != "|" or s1 != s2:
                one = PRELUDE + "s1 = run %s\ns2 = run %s\nprint '{s1}|{s2}'\n" % (s, h)
                chk.violation("hostapi:%s" % sha(s + h), "the host operation API differs from the script-level operation (%s): script `%s` -> %s" % (cls, s.replace("\n", "; "), got[:300]), {"src": one, "script": s, "host": h, "got": got})
            else:
                if ".@" in s1: st["agreeing_with_metakey_calls"] += 1
                if s1.startswith("('E'"): st["agreeing_errors"] += 1
    w.close()
    cov["streams"]["host-operation-api"] = st
    cov["evaluations"] += st["cases"]; cov["distinct_nontrivial"] += st["cases"]
