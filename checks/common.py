"""Helpers shared by the checks: mutation neighbourhoods, rng, classification of exec responses."""
import random, hashlib, json, os, sys
sys.path.insert(0, os.path.dirname(os.path.dirname(os.path.abspath(__file__))))
from kv.worker import Worker, WorkerDied, WorkerHang
from kv import corpus as corpus_mod
from kv.report import Check, sha

def rng_for(seed, *parts):
    h = hashlib.sha256(("%d|" % seed + "|".join(str(p) for p in parts)).encode()).digest()
    return random.Random(int.from_bytes(h[:8], "little"))

def token_mutants(src, toks):
    """Complete delete / duplicate / swap-with-next neighbourhood. toks: [start, end, name] with
    byte offsets. Yields (kind, index, text)."""
    b = src.encode("utf-8")
    n = len(toks)
    for i, (s, e, _) in enumerate(toks):
        yield ("del", i, (b[:s] + b[e:]).decode("utf-8", "replace"))
        yield ("dup", i, (b[:e] + b[s:e] + b[e:]).decode("utf-8", "replace"))
        if i + 1 < n:
            s2, e2, _ = toks[i + 1]
            yield ("swap", i, (b[:s] + b[s2:e2] + b[s:e] + b[e2:]).decode("utf-8", "replace"))

def panic_key(resp):
    p = resp.get("panic") or {}
    return "panic:" + p.get("signature", "?")

def passenger_faults(resp):
    """Chunk-checker / VM-monitor / internal-fault observations of an exec response, as
    (key-prefix, rule, detail) tuples."""
    out = []
    for f in (resp.get("chunk") or {}).get("faults", []):
        out.append(("chunk", f["rule"], f["detail"]))
    for f in (resp.get("vm") or {}).get("faults", []):
        out.append(("vm", f["rule"], f["detail"]))
    if resp.get("internal_fault"):
        out.append(("internal", resp["internal_fault"], resp.get("error", "")))
    return out
