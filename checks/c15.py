"""C15 strings stay valid text; indexing, splitting and formatting are exact.
Closed model in the worker (harness/src/strcheck.rs): Rust `str` + unicode-segmentation. Exhaustive
enumeration of every string up to a length bound over an alphabet mixing 1-4 byte characters, a
combining mark, space, LF, CRLF and a comma, each as a fresh host value, a sub-slice and a slice of
a slice; about 400-1500 operations per string (all index / range arguments in and just beyond
bounds, chars / char_indices / bytes / lines / split / trim / strip / replace / contains / case
mapping / repeat / round-trip laws); every returned string is validated as UTF-8 at the host
boundary. Plus the format-option grid against Rust's formatting, literal escapes, and number
round trips through to_number."""
import json, os, random, subprocess, time
from .common import *
from .modelrun import *
from . import c01
from kv.pool import fan_out
from kv.worker import binary

PID = "C15"

def _strings_shard(shard, n, max_symbols):
    env = dict(os.environ); env["RUST_BACKTRACE"] = "0"
    p = subprocess.run([binary(), "strings", str(max_symbols), str(shard), str(n)], stdout=subprocess.PIPE, stderr=subprocess.PIPE, env=env, timeout=6000)
    if p.returncode != 0:
        return {"died": True, "detail": "exit %s: %s" % (p.returncode, p.stderr.decode("utf-8", "replace")[-400:])}
    return json.loads(p.stdout.decode())

ESCAPES = [("\\n", "\n"), ("\\r", "\r"), ("\\t", "\t"), ("\\'", "'"), ('\\"', '"'), ("\\\\", "\\"), ("\\{", "{"), ("\\u{e9}", "é"), ("\\u{20ac}", "€"), ("\\u{1f600}", "😀"),
           ("\\u{301}", "́"), ("\\x41", "A"), ("\\x7f", "\x7f"), ("\\x0a", "\n"), ("a", "a"), ("é", "é"), ("😀", "😀"), (" ", " "), ("\\\n   ", "")]

def _misc_shard(shard, n, tier, seed):
    w = Worker()
    rep = {"violations": [], "evaluations": 0, "distinct": 0, "samples": [], "passenger": [], "escape_cases": 0, "number_round_trips": 0}
    rng = rng_for(seed, "c15-misc", shard)
    # literal escapes: all pairs (and a sample of triples) of escape items, in both quote kinds
    items = [(a, b) for a in ESCAPES for b in ESCAPES] + [tuple(rng.choice(ESCAPES) for _ in range(3)) for _ in range(300 if tier == "quick" else 3000)]
    batch = []
    def flush():
        if not batch: return
        src = "".join("print(%s.bytes().to_tuple())\n" % lit for lit, _ in batch)
        r = w.exec(src, timeout=30, limit_ms=10000)
        rep["evaluations"] += 1
        got = r.get("stdout", "").split("\n")[:-1] if r.get("outcome") == "ok" else None
        if got is None or len(got) != len(batch):
            rep["violations"].append({"key": "escape-batch:%s" % sha(src), "summary": "literal escape batch failed: %s %s" % (r.get("outcome"), (r.get("error") or "")[:100]), "case": {"src": src, "real": real_view(r)}})
        else:
            for (lit, want), g in zip(batch, got):
                bs = list(want.encode())
                exp = "(" + ", ".join(str(b) for b in bs) + ")"
                if g != exp:
                    rep["violations"].append({"key": "escape:%s" % lit, "summary": "string literal %s has bytes %s, expected %s" % (lit, g, exp), "case": {"src": "print(%s.bytes().to_tuple())\n" % lit, "expected": exp, "real": g}})
        batch.clear()
    for k, combo in enumerate(items):
        if k % n != shard: continue
        for q in ("'", '"'):
            if any(c[0] in ("\\'", '\\"') and c[0][1] != q for c in combo):
                pass
            if any(combo[i][0].startswith("\\\n") and combo[i + 1][0][:1] in (" ", "\t") for i in range(len(combo) - 1)):
                continue        # whitespace right after a line continuation belongs to the continuation
            text = "".join(c[0] for c in combo)
            want = "".join(c[1] for c in combo)
            if q == "'" and "'" in [c[0] for c in combo]: continue
            lit = q + text + q
            batch.append((lit, want))
            rep["escape_cases"] += 1; rep["distinct"] += 1
            if len(batch) >= 80: flush()
    flush()
    # numbers printed into a string come back through to_number (ints over the whole range, finite floats)
    nums = []
    for _ in range(400 if tier == "quick" else 4000):
        r = rng.random()
        if r < 0.4: nums.append(str(rng.randint(-2**63, 2**63 - 1)))
        elif r < 0.6: nums.append(str(rng.randint(-1000, 1000)))
        else:
            f = rng.uniform(-1e6, 1e6) if rng.random() < 0.7 else rng.random() * 10 ** rng.randint(-8, 15)
            nums.append(repr(f) if "e" not in repr(f) else None)
    nums = [x for x in nums if x]
    for b0 in range(0, len(nums), 100):
        chunk = nums[b0:b0 + 100]
        src = "".join("x = %s\nprint('{x}'.to_number() == x, '{x}' == '%s')\n" % (("(%s)" % x) if x.startswith("-") else x, x if "." in x or True else x) for x in chunk)
        r = w.exec(src, timeout=30, limit_ms=10000)
        rep["evaluations"] += 1
        got = r.get("stdout", "").split("\n")[:-1] if r.get("outcome") == "ok" else None
        if got is None or len(got) != len(chunk):
            rep["violations"].append({"key": "to-number-batch:%s" % sha(src), "summary": "to_number batch failed: %s %s" % (r.get("outcome"), (r.get("error") or "")[:100]), "case": {"src": src[:3000], "real": real_view(r)}})
            continue
        for x, g in zip(chunk, got):
            rep["number_round_trips"] += 1; rep["distinct"] += 1
            if not g.startswith("(true,"):
                rep["violations"].append({"key": "to-number:%s" % x, "summary": "'{x}'.to_number() != x for x = %s (%s)" % (x, g), "case": {"src": "x = %s\nprint('{x}'.to_number() == x)\n" % x, "real": g}})
    w.close()
    return rep

def sanitizer_layer(chk, cov):
    """Thorough tier: the string grid (3 symbols) and the unsafe-slice workload under AddressSanitizer, the unsafe-slice
    workload under Miri. A sanitizer report is a violation; a build failure or timeout is inconclusive."""
    from kv import sanitize
    st = {}
    ok, log = sanitize.build_asan()
    if not ok:
        chk.inconclusive.append("the AddressSanitizer build failed (sanitizer part skipped): " + log[-200:].replace("\n", " "))
    else:
        ran = 0
        for shard in range(4):
            out, report = sanitize.run_asan(["strings", 3, shard, 4])
            if report:
                chk.violation("asan:%s" % sha(report[:400]), "AddressSanitizer report in the string grid: " + report[:300], {"report": report})
            elif out is None:
                chk.inconclusive.append("an ASan string-grid shard did not complete")
            else:
                ran += out.get("evaluations", 0)
                for f in out.get("faults", []):
                    chk.violation("str-asan:%s:%s:%s" % (f.get("rule"), f.get("op", ""), f.get("input")), "string grid under ASan: %s" % json.dumps(f)[:200], f)
        out, report = sanitize.run_asan(["unsafe-slice", 4])
        if report:
            chk.violation("asan:%s" % sha(report[:400]), "AddressSanitizer report in the unsafe-slice workload: " + report[:300], {"report": report})
        elif out is None:
            chk.inconclusive.append("the ASan unsafe-slice run did not complete")
        else:
            ran += out["ops"]
            for f in out["faults"]:
                chk.violation("unsafe-slice:%s" % sha(f), "unsafe-slice workload under ASan: " + f[:200], {"fault": f})
        st["asan_operations"] = ran
        cov["evaluations"] += ran
    out, ub, note = sanitize.run_miri(["unsafe-slice", 1])
    if ub:
        chk.violation("miri:%s" % sha(ub[:400]), "Miri reports undefined behaviour in the unsafe-slice workload: " + ub[:300], {"report": ub})
    elif out is None:
        chk.inconclusive.append("the Miri unsafe-slice run did not complete: " + note[:200])
    else:
        st["miri_operations"] = out["ops"]
        cov["evaluations"] += out["ops"]
        for f in out["faults"]:
            chk.violation("unsafe-slice:%s" % sha(f), "unsafe-slice workload under Miri: " + f[:200], {"fault": f})
    cov["streams"]["sanitizers"] = st

def run(tier, seed):
    chk = Check(PID, tier, seed)
    if not chk.build():
        return chk.finish({"evaluations": 0, "distinct_nontrivial": 0, "rule": "", "samples": []})
    quick = tier == "quick"
    max_symbols = 4 if quick else 5
    cov = {"evaluations": 0, "distinct_nontrivial": 0, "samples": [], "streams": {}, "exhaustive": True}
    shards = fan_out(_strings_shard, max_symbols=max_symbols)
    st = {"evaluations": 0, "strings": 0, "errors_expected": 0}
    for s in shards:
        if "harness_error" in s:
            chk.harness_errors.append(s["harness_error"]); continue
        if s.get("died"):
            chk.violation("strings-death", "the string enumeration process died: " + s["detail"], {"detail": s["detail"]}); continue
        if "panic" in s:
            chk.violation("panic:" + s["panic"]["signature"], "panic during the string enumeration: " + s["panic"]["message"][:100], {"panic": s["panic"]}); continue
        for k in st: st[k] += s[k]
        for f in s["faults"]:
            key = "str:%s:%s:%s:%s" % (f.get("rule"), f.get("op", ""), f.get("input"), f.get("repr"))
            chk.violation(key, "string %r (%s), %s: expected %s, got %s %s" % (f.get("input"), ["fresh", "sub-slice", "slice of slice", "slice beyond 64 KiB of its buffer"][f.get("repr", 0) or 0], f.get("op") or f.get("rule"), f.get("expected"), f.get("got"), f.get("detail", "")[:100]), f)
        cov["samples"] += s["samples"][:1] if len(cov["samples"]) < 3 else []
    cov["streams"]["string-grid"] = st
    cov["evaluations"] += st["evaluations"]
    cov["distinct_nontrivial"] += st["strings"] * 3
    # format grid
    env = dict(os.environ); env["RUST_BACKTRACE"] = "0"
    p = subprocess.run([binary(), "format-grid"], stdout=subprocess.PIPE, stderr=subprocess.PIPE, env=env, timeout=600)
    if p.returncode != 0:
        chk.violation("format-grid-death", "the format grid process died", {"detail": p.stderr.decode("utf-8", "replace")[-300:]})
    else:
        g = json.loads(p.stdout.decode())
        if "panic" in g:
            chk.violation("panic:" + g["panic"]["signature"], "panic in the format grid", {"panic": g["panic"]})
        else:
            for f in g["faults"]:
                chk.violation("fmtgrid:%s" % f["src"], "%s evaluates to %r, expected %r" % (f["src"], f["got"], f["expected"]), f)
            cov["streams"]["format-grid"] = {"evaluations": g["evaluations"]}
            cov["evaluations"] += g["evaluations"]; cov["distinct_nontrivial"] += g["evaluations"]
            cov["samples"] += g["samples"][:2]
    c01.fold(chk, cov | {"passenger_observations": [], "passenger_src": []}, "escapes-and-number-round-trips", []) if False else None
    misc = fan_out(_misc_shard, tier=tier, seed=seed)
    mst = {"evaluations": 0, "escape_cases": 0, "number_round_trips": 0}
    for s in misc:
        chk.merge_shard(s)
        if "harness_error" in s: continue
        for k in mst: mst[k] += s[k]
        cov["distinct_nontrivial"] += s["distinct"]
    cov["streams"]["escapes-and-number-round-trips"] = mst
    cov["evaluations"] += mst["evaluations"]
    if not quick:
        sanitizer_layer(chk, cov)
    cov["rule"] = ("string grid (complete): all strings of <= %d symbols over {a, é, €, 😀, U+0301, space, LF, CRLF, comma} x 4 representations (slice starting 70 000 bytes into its buffer, fresh host value, sub-slice of a "
                   "concatenation, slice of a slice) x every operation of the batch: size, s[i], s[i..j], s[i..=j], s[..j], s[..=j], s[i..] for all i, j in [-1, len+1], chars, "
                   "char_indices, bytes, from_bytes, lines, for-loop, unpacking, trim / trim_start / trim_end (+19 patterns), split / contains / starts_with / ends_with / "
                   "strip_prefix / strip_suffix / replace (19 patterns), case mapping, repeat 0-3, interpolation, re-join and chars round-trip laws; format grid (complete): "
                   "15 values x fill {none, _, 😀, }, 0} x align x width {none, 0, 1, 5, 12} x zero flag x precision {none, 0, 2} x representation {none, ?, x, X, o, b, e, E} "
                   "where the guide defines the combination; literal escapes: all pairs of 19 escape items in both quote kinds; '{x}'.to_number() == x for seeded ints and "
                   "floats. distinct = strings x representations + format cells + escape literals + numbers." % max_symbols)
    return chk.finish(cov, assumptions=["oracle = Rust str / unicode-segmentation / format!; an empty range that starts inside a character is an error (str::get)",
                                         "empty patterns and to_number on arbitrary text are outside the compared set",
                                         "representation + precision is only compared for floats"])
