//! C17 host side: a KotoObject whose implemented subset of the object interface is selected by
//! masks; every trait call is logged ("tag.method(operand)") so that the dispatch order is visible.
use koto_runtime::{Result, derive::*, prelude::*};
use std::cell::RefCell;

thread_local! {
    static LOG: RefCell<Vec<String>> = const { RefCell::new(Vec::new()) };
}

pub const NEGATE: u32 = 0;
pub const ADD: u32 = 1; // ..=6 add subtract multiply divide remainder power
pub const ADD_RHS: u32 = 7; // ..=12
pub const ADD_ASSIGN: u32 = 13; // ..=18
pub const LESS: u32 = 19;
pub const LESS_OR_EQUAL: u32 = 20;
pub const GREATER: u32 = 21;
pub const GREATER_OR_EQUAL: u32 = 22;
pub const EQUAL: u32 = 23;
pub const NOT_EQUAL: u32 = 24;
pub const INDEX: u32 = 25;
pub const INDEX_ASSIGN: u32 = 26;
pub const SIZE: u32 = 27;
pub const CALL: u32 = 28;

/// A KotoObject with every trait method left at its default: the reference for "not implemented".
#[derive(Clone, KotoCopy, KotoType)]
#[koto(runtime = koto_runtime, type_name = "Probe")]
struct Bare;
#[koto_impl(runtime = koto_runtime)]
impl Bare {}
impl KotoObject for Bare {}

#[derive(Clone)]
pub struct State {
    tag: String,
    implemented: u64,
    unimplemented: u64, // logs the call, then reports "unimplemented"
    throws: u64,        // logs the call, then returns an ordinary error
    truth: u64,         // results of the comparison methods
}

#[derive(Clone, KotoCopy, KotoType)]
#[koto(runtime = koto_runtime, type_name = "Probe")]
pub struct Probe(State);
#[koto_impl(runtime = koto_runtime)]
impl Probe {
    #[koto_method]
    fn tag(&self) -> KValue {
        self.0.tag.as_str().into()
    }
}

#[derive(Clone, KotoCopy, KotoType)]
#[koto(runtime = koto_runtime, type_name = "Probe")]
pub struct ProbeCmp(State);
#[koto_impl(runtime = koto_runtime)]
impl ProbeCmp {
    #[koto_method]
    fn tag(&self) -> KValue {
        self.0.tag.as_str().into()
    }
}

fn show(v: &KValue) -> String {
    match v {
        KValue::Object(o) => {
            if let Ok(p) = o.cast::<Probe>() {
                format!("probe:{}", p.0.tag)
            } else if let Ok(p) = o.cast::<ProbeCmp>() {
                format!("probe:{}", p.0.tag)
            } else {
                "object".to_string()
            }
        }
        KValue::Map(m) => match m.get("tag") {
            Some(KValue::Str(s)) => format!("obj:{}", s.as_str()),
            _ => "map".to_string(),
        },
        KValue::Number(n) => n.to_string(),
        KValue::Str(s) => s.as_str().to_string(),
        KValue::Null => "null".to_string(),
        KValue::List(_) => "list".to_string(),
        other => other.type_as_string().to_string(),
    }
}

enum Mode {
    Off,
    Ret,
    Unimplemented,
    Throws,
}

impl State {
    fn mode(&self, bit: u32, name: &str, operand: Option<&KValue>) -> Mode {
        let b = 1u64 << bit;
        let mode = if self.unimplemented & b != 0 {
            Mode::Unimplemented
        } else if self.throws & b != 0 {
            Mode::Throws
        } else if self.implemented & b != 0 {
            Mode::Ret
        } else {
            return Mode::Off;
        };
        let line = match operand {
            Some(v) => format!("{}.{}({})", self.tag, name, show(v)),
            None => format!("{}.{}()", self.tag, name),
        };
        LOG.with(|l| l.borrow_mut().push(line));
        mode
    }
    fn truth(&self, bit: u32) -> bool {
        self.truth & (1u64 << bit) != 0
    }
}

macro_rules! value_method {
    ($name:ident, $bit:expr) => {
        fn $name(&self, other: &KValue) -> Result<KValue> {
            match self.0.mode($bit, stringify!($name), Some(other)) {
                Mode::Off | Mode::Unimplemented => Bare.$name(other),
                Mode::Throws => koto_runtime::runtime_error!("boom"),
                Mode::Ret => Ok(format!("{}.{}", self.0.tag, stringify!($name)).into()),
            }
        }
    };
}
macro_rules! assign_method {
    ($name:ident, $bit:expr) => {
        fn $name(&mut self, other: &KValue) -> Result<()> {
            match self.0.mode($bit, stringify!($name), Some(other)) {
                Mode::Off | Mode::Unimplemented => Bare.$name(other),
                Mode::Throws => koto_runtime::runtime_error!("boom"),
                Mode::Ret => Ok(()),
            }
        }
    };
}
macro_rules! bool_method {
    ($name:ident, $bit:expr) => {
        fn $name(&self, other: &KValue) -> Result<bool> {
            match self.0.mode($bit, stringify!($name), Some(other)) {
                Mode::Off | Mode::Unimplemented => Bare.$name(other),
                Mode::Throws => koto_runtime::runtime_error!("boom"),
                Mode::Ret => Ok(self.0.truth($bit)),
            }
        }
    };
}

macro_rules! probe_object {
    ($ty:ident, { $($extra:tt)* }) => {
impl KotoObject for $ty {
    fn display(&self, ctx: &mut DisplayContext) -> Result<()> {
        ctx.append(format!("Probe({})", self.0.tag));
        Ok(())
    }
    fn negate(&self) -> Result<KValue> {
        match self.0.mode(NEGATE, "negate", None) {
            Mode::Off | Mode::Unimplemented => Bare.negate(),
            Mode::Throws => koto_runtime::runtime_error!("boom"),
            Mode::Ret => Ok(format!("{}.negate", self.0.tag).into()),
        }
    }
    value_method!(add, ADD);
    value_method!(subtract, ADD + 1);
    value_method!(multiply, ADD + 2);
    value_method!(divide, ADD + 3);
    value_method!(remainder, ADD + 4);
    value_method!(power, ADD + 5);
    value_method!(add_rhs, ADD_RHS);
    value_method!(subtract_rhs, ADD_RHS + 1);
    value_method!(multiply_rhs, ADD_RHS + 2);
    value_method!(divide_rhs, ADD_RHS + 3);
    value_method!(remainder_rhs, ADD_RHS + 4);
    value_method!(power_rhs, ADD_RHS + 5);
    assign_method!(add_assign, ADD_ASSIGN);
    assign_method!(subtract_assign, ADD_ASSIGN + 1);
    assign_method!(multiply_assign, ADD_ASSIGN + 2);
    assign_method!(divide_assign, ADD_ASSIGN + 3);
    assign_method!(remainder_assign, ADD_ASSIGN + 4);
    assign_method!(power_assign, ADD_ASSIGN + 5);
    fn less(&self, other: &KValue) -> Result<bool> {
        match self.0.mode(LESS, "less", Some(other)) {
            Mode::Off | Mode::Unimplemented => Bare.less(other),
            Mode::Throws => koto_runtime::runtime_error!("boom"),
            Mode::Ret => Ok(self.0.truth(LESS)),
        }
    }
    fn equal(&self, other: &KValue) -> Result<bool> {
        match self.0.mode(EQUAL, "equal", Some(other)) {
            Mode::Off | Mode::Unimplemented => Bare.equal(other),
            Mode::Throws => koto_runtime::runtime_error!("boom"),
            Mode::Ret => Ok(self.0.truth(EQUAL)),
        }
    }
    $($extra)*
    fn index(&self, index: &KValue) -> Result<KValue> {
        match self.0.mode(INDEX, "index", Some(index)) {
            Mode::Off | Mode::Unimplemented => Bare.index(index),
            Mode::Throws => koto_runtime::runtime_error!("boom"),
            Mode::Ret => Ok(format!("{}.index", self.0.tag).into()),
        }
    }
    fn index_assign(&mut self, index: &KValue, value: &KValue) -> Result<()> {
        match self.0.mode(INDEX_ASSIGN, "index_assign", Some(index)) {
            Mode::Off | Mode::Unimplemented => Bare.index_assign(index, value),
            Mode::Throws => koto_runtime::runtime_error!("boom"),
            Mode::Ret => Ok(()),
        }
    }
    fn size(&self) -> Option<usize> {
        match self.0.mode(SIZE, "size", None) {
            Mode::Ret => Some(3),
            _ => None,
        }
    }
    fn is_callable(&self) -> bool {
        self.0.implemented & (1 << CALL) != 0
    }
    fn call(&mut self, ctx: &mut CallContext) -> Result<KValue> {
        match self.0.mode(CALL, "call", ctx.args().first()) {
            Mode::Off | Mode::Unimplemented => Bare.call(ctx),
            Mode::Throws => koto_runtime::runtime_error!("boom"),
            Mode::Ret => Ok(format!("{}.call", self.0.tag).into()),
        }
    }
}
    };
}

// Probe: the four derived comparisons are NOT overridden - the trait's own defaults run.
probe_object!(Probe, {});
// ProbeCmp: additionally overrides the derived comparisons (used with their bits set).
probe_object!(ProbeCmp, {
    bool_method!(less_or_equal, LESS_OR_EQUAL);
    bool_method!(greater, GREATER);
    bool_method!(greater_or_equal, GREATER_OR_EQUAL);
    bool_method!(not_equal, NOT_EQUAL);
});

fn mask_arg(v: Option<&KValue>) -> u64 {
    match v {
        Some(KValue::Number(n)) => i64::from(n) as u64,
        _ => 0,
    }
}

/// Adds `make_probe(tag, implemented, unimplemented, throws, truth)` and `plog()` to the prelude.
pub fn install(prelude: &KMap) {
    prelude.add_fn("make_probe", |ctx| {
        let args = ctx.args();
        let tag = match args.first() {
            Some(KValue::Str(s)) => s.as_str().to_string(),
            _ => "?".to_string(),
        };
        let state = State {
            tag,
            implemented: mask_arg(args.get(1)),
            unimplemented: mask_arg(args.get(2)),
            throws: mask_arg(args.get(3)),
            truth: mask_arg(args.get(4)),
        };
        // sixth argument true: the variant that also overrides the derived comparisons
        Ok(match args.get(5) {
            Some(KValue::Bool(true)) => KObject::from(ProbeCmp(state)).into(),
            _ => KObject::from(Probe(state)).into(),
        })
    });
    // host-provided iterators over the elements of a list / tuple (C13 sources)
    fn elements(args: &[KValue]) -> Vec<KValue> {
        match args.first() {
            Some(KValue::List(l)) => l.data().iter().cloned().collect(),
            Some(KValue::Tuple(t)) => t.iter().cloned().collect(),
            _ => Vec::new(),
        }
    }
    prelude.add_fn("host_bytes", |ctx| {
        let bytes: Vec<u8> = elements(ctx.args()).iter().map(|v| match v {
            KValue::Number(n) => i64::from(n) as u8,
            _ => 0,
        }).collect();
        Ok(KIterator::with_bytes(bytes.into())?.into())
    });
    prelude.add_fn("host_iter", |ctx| {
        let items: Vec<KIteratorOutput> = elements(ctx.args()).into_iter().map(KIteratorOutput::Value).collect();
        Ok(KIterator::with_std_iter(items.into_iter()).into())
    });
    prelude.add_fn("host_forward_iter", |ctx| {
        let items: Vec<KIteratorOutput> = elements(ctx.args()).into_iter().map(KIteratorOutput::Value).collect();
        Ok(KIterator::with_std_forward_iter(items.into_iter()).into())
    });
    // the host-facing operation API of the VM (run_unary_op / run_binary_op / run_read_op / run_write_op / call_function /
    // make_iterator): `host_op name, operands...` runs the operation the way an embedding application would
    prelude.add_fn("host_op", |ctx| {
        let args = ctx.args().to_vec();
        let name = match args.first() {
            Some(KValue::Str(s)) => s.as_str().to_string(),
            _ => return runtime_error!("host_op: expected an operation name"),
        };
        let arg = |i: usize| args.get(i).cloned().unwrap_or(KValue::Null);
        let binary = |n: &str| Some(match n {
            "+" => BinaryOp::Add, "-" => BinaryOp::Subtract, "*" => BinaryOp::Multiply, "/" => BinaryOp::Divide, "%" => BinaryOp::Remainder, "^" => BinaryOp::Power,
            "+=" => BinaryOp::AddAssign, "-=" => BinaryOp::SubtractAssign, "*=" => BinaryOp::MultiplyAssign, "/=" => BinaryOp::DivideAssign, "%=" => BinaryOp::RemainderAssign,
            "^=" => BinaryOp::PowerAssign, "<" => BinaryOp::Less, "<=" => BinaryOp::LessOrEqual, ">" => BinaryOp::Greater, ">=" => BinaryOp::GreaterOrEqual,
            "==" => BinaryOp::Equal, "!=" => BinaryOp::NotEqual,
            _ => return None,
        });
        if let Some(op) = binary(&name) {
            return ctx.vm.run_binary_op(op, arg(1), arg(2));
        }
        match name.as_str() {
            "negate" => ctx.vm.run_unary_op(UnaryOp::Negate, arg(1)),
            "size" => ctx.vm.run_unary_op(UnaryOp::Size, arg(1)),
            "display" => ctx.vm.run_unary_op(UnaryOp::Display, arg(1)),
            "debug" => ctx.vm.run_unary_op(UnaryOp::Debug, arg(1)),
            "iterator" => ctx.vm.run_unary_op(UnaryOp::Iterator, arg(1)),
            "next" => ctx.vm.run_unary_op(UnaryOp::Next, arg(1)),
            "next_back" => ctx.vm.run_unary_op(UnaryOp::NextBack, arg(1)),
            "index" => ctx.vm.run_read_op(ReadOp::Index, arg(1), arg(2)),
            "access" => ctx.vm.run_read_op(ReadOp::Access, arg(1), arg(2)),
            "index_assign" => ctx.vm.run_write_op(WriteOp::IndexAssign, arg(1), arg(2), arg(3)),
            "access_assign" => ctx.vm.run_write_op(WriteOp::AccessAssign, arg(1), arg(2), arg(3)),
            "call" => ctx.vm.call_function(arg(1), &args[2.min(args.len())..]),
            "call_instance" => ctx.vm.call_instance_function(arg(1), arg(2), &args[3.min(args.len())..]),
            "to_string" => ctx.vm.value_to_string(&arg(1)).map(|s| KValue::from(s.as_str())),
            "collect" => {
                let mut out = Vec::new();
                for item in ctx.vm.make_iterator(arg(1))? {
                    match item {
                        KIteratorOutput::Value(v) => out.push(v),
                        KIteratorOutput::ValuePair(a, b) => out.push(KValue::Tuple(vec![a, b].into())),
                        KIteratorOutput::Error(e) => return Err(e),
                    }
                }
                Ok(KValue::Tuple(out.into()))
            }
            other => runtime_error!("host_op: unknown operation {other}"),
        }
    });
    prelude.add_fn("plog", |_| {
        let lines: Vec<KValue> = LOG.with(|l| l.borrow_mut().drain(..).map(|s| KValue::from(s.as_str())).collect());
        Ok(KValue::Tuple(lines.into()))
    });
}
