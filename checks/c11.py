"""C11 the formatter preserves meaning, keeps comments, is idempotent and total.
Relational monitors over real format / parse / lex / run executions: for every parseable input and
option set the formatter must return text (no error, no panic) that parses, whose canonical syntax
tree equals the input's modulo the declared cosmetic flags, whose comment texts and literal token
texts equal the input's as sequences, that formats to itself, and - for runnable programs - that
behaves identically."""
import os, random, re, time
from .common import *
from .modelrun import *
from . import c01
from kv.pool import fan_out
from kvmodel.gen import Gen, GenFn, GenMatch, GenErr
from kvmodel.printer import Printer, TRACE_PRELUDE, ALL_FREEDOMS

PID = "C11"
NORM = {"strip_nested": True, "strip_cosmetic": True, "strip_quotes": True}
# regular stream: the line-breaking engine is kept out of the way (width 255) while every other option varies
REGULAR = [{"line_length": 255}, {"line_length": 255, "indent_width": 4}, {"line_length": 255, "chain_break_threshold": 1}, {"line_length": 255, "always_indent_arms": True},
           {"line_length": 255, "indent_width": 1}, {"line_length": 255, "indent_width": 8, "chain_break_threshold": 0}, {"line_length": 255, "always_indent_arms": True, "indent_width": 3}]
# width stream: failures here are attributed to the recorded line-breaking finding F-F4 exactly when the same input passes
# every monitor at width 255 with otherwise identical options
NARROW = [{"line_length": 100}, {"line_length": 80, "indent_width": 4}, {"line_length": 60}, {"line_length": 40}, {"line_length": 30}, {"line_length": 20}, {"line_length": 1}]

def _call(w, req):
    try:
        return w.call(req, timeout=20)
    except WorkerDied as e:
        return {"died": e.kind, "detail": e.detail}
    except WorkerHang:
        return {"hang": True}

def _tokens(w, src):
    r = _call(w, {"op": "tokens", "src": src})
    return r.get("tokens")

def _comments_and_literals(src, toks):
    b = src.encode()
    comments, literals = [], []
    prev = None
    for s0, e0, name in toks:
        t = b[s0:e0].decode("utf-8", "replace")
        was, prev = prev, name
        if name == "StringLiteral" and was == "Colon":
            continue        # the format options of a placeholder: compared as parsed (AST), the formatter may normalise their spelling
        if name in ("CommentSingle", "CommentMulti"):
            comments.append(" ".join(t.split()))
        elif name == "Number":
            literals.append(t)
        elif name == "StringLiteral":
            literals.append(t)
    return comments, literals

_HEADER_WORD = re.compile(r"(^\s*|=\s*|\bthen\s+)(for|if|else if|while|until|match|switch|catch)\b")
def shape_tags(src, opts):
    """Shapes of the recorded formatter findings (known_findings.json F-F1 ... F-F9). A failure is attributed to a finding
    only through these predicates; a failing input that shows none of them is reported under the tag `none`."""
    tags = []
    lines = src.split("\n")
    if re.search(r"\bimport\s+\*", src): tags.append("import-star")
    # F-F2: format options with a representation character (`{z:x}`, `{v:08.2e}`, `{v:?}`) or an empty option (`{v:}`); options made
    # of fill / alignment / zero flag / width / precision only are kept by the formatter and are judged without a mask
    if re.search(r"['\"][^'\"\n]*\{[^{}'\"\n]*:([^{}'\"\n]*[?xXobeE])?\}", src): tags.append("format-spec")
    if re.search(r"['\"][^'\"\n]*\{[^}'\"\n]*['\"]", src): tags.append("string-in-placeholder")
    if re.search(r",\s*,", src): tags.append("double-comma")
    if "#[fmt:skip]" in src: tags.append("fmt-skip")
    for i in range(len(lines) - 1):
        if lines[i].strip().replace(" ", "") == "#[fmt:skip]" and re.match(r"\s*(if\b|match\b|switch\b|-)", lines[i + 1]):
            tags.append("skip-before-keyword")      # F-F11
            break
    if src.startswith("\n") or src.startswith("\r\n") or src.startswith(" \n"): tags.append("leading-blank")
    for i in range(len(lines) - 1):
        if re.search(r"\S.*#(?!-)[^'\"]*$", lines[i]) and re.match(r"\s*[)\]}]\s*\S", lines[i + 1]):
            tags.append("comment-before-closer")     # F-F12: a line comment, then a closing bracket followed by more code
            break
    def trivia(l):
        t = l.strip()
        return not t or t.startswith("#")
    for i in range(len(lines) - 2):
        a = lines[i]
        if not trivia(a) and trivia(lines[i + 1]):
            nxt = next((l for l in lines[i + 1:] if not trivia(l)), "")
            if len(nxt) - len(nxt.lstrip()) > len(a) - len(a.lstrip()):
                # a blank or comment line between a line and its more deeply indented continuation / block
                tags.append("blank-after-header")
                break
    for i in range(1, len(lines)):
        if (lines[i].strip().startswith(".") or lines[i].strip().startswith("->")) and trivia(lines[i - 1]):
            tags.append("blank-in-continuation")
            break
    for i in range(1, len(lines)):
        t = lines[i].strip()
        if t.startswith("-") and not t.startswith("->"):
            before = next((l for l in reversed(lines[:i]) if not trivia(l)), "")
            if re.sub(r"\s+#(?!-).*$", "", before).rstrip().endswith(",") and len(before) - len(before.lstrip()) != len(lines[i]) - len(lines[i].lstrip()):
                tags.append("minus-line-in-args")      # F-F18: an argument line starting with `-` at another indentation than the line before it
                break
    for i in range(1, len(lines) - 1):
        if not lines[i].strip() and i + 1 < len(lines) and lines[i + 1].strip():
            before = next((l for l in reversed(lines[:i]) if not trivia(l)), "")
            code = re.sub(r"\s+#(?!-).*$", "", before).rstrip()
            if code.endswith((",", "(", "[", "{")):
                tags.append("blank-in-list")       # F-F13: a blank line between the elements of a list / call that is spread over lines
                break
    for i in range(1, len(lines)):
        if lines[i].strip().split(" ")[0] in ("else", "catch", "finally") and trivia(lines[i - 1]):
            tags.append("blank-before-else")
            break
    if opts.get("chain_break_threshold", 4) < 4 and any(_HEADER_WORD.search(l) and "." in l for l in lines):
        tags.append("chain-in-header")
    return "+".join(tags) if tags else "none"

def check_one(w, rep, src, opts, origin, runnable, narrow=False):
    """Applies all C11 monitors to one (input, options) pair. Returns True when everything held."""
    rep["evaluations"] += 1
    okey = ",".join("%s=%s" % kv for kv in sorted(opts.items()))
    def viol(rule, summary, extra=None):
        tag = shape_tags(src, opts)
        if narrow:
            tag = "narrow" if tag == "none" else tag + "+narrow"
        case = {"src": src, "options": opts, "origin": origin}
        case.update(extra or {})
        rep["violations"].append({"key": "fmt:%s:%s:%s" % (rule, tag, sha(src)), "summary": "[%s] %s (%s; %s)" % (rule, summary, origin, okey), "case": case})
        return False
    f = _call(w, {"op": "format", "src": src, "options": opts})
    if "panic" in f:
        if f["panic"].get("excluded"): return True
        rep["violations"].append({"key": "panic:" + f["panic"]["signature"], "summary": "formatter panicked: %s (%s)" % (f["panic"]["message"][:100], origin), "case": {"src": src, "options": opts, "panic": f["panic"]}})
        return False
    if "died" in f or "hang" in f:
        if f.get("died") in ("stack-overflow", "alloc"): return True
        return viol("abnormal", "formatter %s" % ("hung" if "hang" in f else "died: " + f.get("detail", "")[-100:]))
    if not f.get("ok"):
        return viol("error", "formatter returned an error for a program that parses: %s" % (f.get("error") or "")[:100])
    out = f["out"]
    rep["formatted"] += 1
    a0 = _call(w, {"op": "parse", "src": src, "options": NORM})
    a1 = _call(w, {"op": "parse", "src": out, "options": NORM})
    if not a1.get("ok"):
        return viol("parse", "formatted output does not parse: %s" % (a1.get("error") or "")[:100], {"out": out})
    if a0.get("ok") and a0["canon"] != a1["canon"]:
        a, b = a0["canon"], a1["canon"]
        i = 0
        while i < min(len(a), len(b)) and a[i] == b[i]: i += 1
        return viol("ast", "formatted output parses to a different program: ...%s | ...%s" % (a[max(0, i - 40):i + 60], b[max(0, i - 40):i + 60]), {"out": out})
    t0, t1 = _tokens(w, src), _tokens(w, out)
    if t0 is not None and t1 is not None:
        c0, l0 = _comments_and_literals(src, t0)
        c1, l1 = _comments_and_literals(out, t1)
        if c0 != c1:
            return viol("comments", "comment sequence changed: %s -> %s" % (str(c0)[:120], str(c1)[:120]), {"out": out})
        if l0 != l1:
            return viol("literals", "literal token sequence changed: %s -> %s" % (str([x for x in l0 if x not in l1][:4])[:100], str([x for x in l1 if x not in l0][:4])[:100]), {"out": out})
        rep["comments_seen"] += len(c0)
    f2 = _call(w, {"op": "format", "src": out, "options": opts})
    if not f2.get("ok") or f2["out"] != out:
        return viol("idempotence", "format(format(x)) != format(x)", {"out": out, "out2": f2.get("out") or f2.get("error")})
    if runnable:
        r0 = w.exec(src, timeout=20, limit_ms=3000)
        r1 = w.exec(out, timeout=20, limit_ms=3000)
        rep["ran"] += 1
        if r0.get("outcome") not in ("hang", "died") and c01.canon_view(real_view(r0)) != c01.canon_view(real_view(r1)):
            return viol("behaviour", "formatted program behaves differently: %s vs %s" % (str(c01.canon_view(real_view(r0)))[:100], str(c01.canon_view(real_view(r1)))[:100]), {"out": out})
    return True

def ctrl_decorate(src, toks, prng, p=0.6):
    """Inserts ASCII characters of zero / odd display width (TAB, SOH, DEL, VT) inside comment and string-literal tokens: columns
    and byte offsets diverge although the source is pure ASCII. The decorated text is a new input (it is compared with its own
    formatted output only)."""
    b = src.encode("utf-8")
    out, last, n = [], 0, 0
    for s0, e0, name in toks:
        if name not in ("CommentSingle", "CommentMulti", "StringLiteral") or e0 - s0 < 1 or prng.random() > p:
            continue
        lo, hi = (s0 + 2, e0 - 2) if name == "CommentMulti" else (s0 + 1, e0) if name == "CommentSingle" else (s0, e0)
        cands = [k for k in range(lo, hi + 1) if k <= len(b) and (k == 0 or b[k - 1:k] not in (b"\\", b"{", b"$")) and b[k - 1:k] < b"\x80" and (k >= len(b) or b[k:k + 1] < b"\x80")]
        if not cands or lo > hi:
            continue
        k = prng.choice(cands)
        if k < last:
            continue
        out.append(b[last:k]); out.append(prng.choice([b"\t", b"\t", b"\t\t", b"\x01", b"\x7f", b"\x0b"])); last = k; n += 1
    out.append(b[last:])
    return b"".join(out).decode("utf-8", "replace"), n

def _has_str(e):
    if isinstance(e, tuple):
        if e and e[0] == "str": return True
        return any(_has_str(x) for x in e)
    if isinstance(e, list):
        return any(_has_str(x) for x in e)
    return False

def _nested_string_in_placeholder(e):
    if isinstance(e, tuple):
        if e and e[0] == "str":
            return any((not isinstance(p, str)) and _has_str(p[1]) or (not isinstance(p, str)) and _nested_string_in_placeholder(p[1]) for p in e[1])
        return any(_nested_string_in_placeholder(x) for x in e)
    if isinstance(e, list):
        return any(_nested_string_in_placeholder(x) for x in e)
    return False

def _shard(shard, n, tier, seed, budget_s):
    w = Worker()
    t_end = time.time() + budget_s
    rng = rng_for(seed, "c11", shard)
    rep = {"violations": [], "evaluations": 0, "distinct": set(), "samples": [], "passenger": [], "formatted": 0, "ran": 0, "comments_seen": 0, "inputs": 0,
           "narrow_evaluations": 0, "narrow_failures_attributed": 0}
    progs = corpus_mod.load()
    quick = tier == "quick"
    def drive(src, origin, runnable):
        p = _call(w, {"op": "parse", "src": src, "options": {}})
        if not p.get("ok"):
            return
        rep["inputs"] += 1
        rep["distinct"].add(sha(src))
        opt_sets = [REGULAR[0]] + ([rng.choice(REGULAR[1:])] if quick else REGULAR[1:])
        for o in opt_sets:
            check_one(w, rep, src, o, origin, runnable and o is REGULAR[0] and corpus_mod.safe_to_run(src))
        # narrower widths: failures are attributed to F-F4 exactly when the same input passes every monitor at width 255
        if rng.random() < (0.3 if quick else 1.0):
            o = dict(rng.choice(NARROW))
            before = len(rep["violations"])
            ok = check_one(w, rep, src, o, origin, False, narrow=True)
            rep["narrow_evaluations"] += 1
            if not ok:
                wide = dict(o); wide["line_length"] = 255
                scratch = {"violations": [], "evaluations": 0, "formatted": 0, "ran": 0, "comments_seen": 0}
                if not check_one(w, scratch, src, wide, origin, False):
                    # fails at width 255 too: not a narrow-width artefact - re-key without the narrow tag
                    for v in rep["violations"][before:]:
                        v["key"] = v["key"].replace("+narrow", "").replace(":narrow:", ":none:")
                else:
                    rep["narrow_failures_attributed"] += 1
    # corpus
    order = [i for i in range(len(progs)) if i % n == shard]
    rng.shuffle(order)
    for pi in order:
        if time.time() > t_end: break
        p = progs[pi]
        drive(p["src"], p["id"], p["runnable"])
        if max((len(l) for l in p["src"].split("\n")), default=0) <= 200:
            toks = _tokens(w, p["src"])
            if toks:
                dtext, nd = ctrl_decorate(p["src"], toks, random.Random(pi * 7919 + seed), 0.4)
                if nd:
                    rep["ctrl_decorated"] = rep.get("ctrl_decorated", 0) + 1
                    drive(dtext, "%s/ctrl" % p["id"], False)
                # a fixed subset of the neighbourhood (independent of the seed): every 24th mutant in quick, every 3rd in thorough
                step = 24 if quick else 3        # (the quick subset is contained in the thorough one)
                for mi, (kind, idx, text) in enumerate(token_mutants(p["src"], toks)):
                    if (mi + pi) % step == 0:
                        drive(text, "%s/%s@%d" % (p["id"], kind, idx), False)
    # interpolation format options without a representation character: fill / alignment / zero flag / width / precision
    gi = 0
    for fa in ["", "<", "^", ">", "_<", "*^", "0>", "é>", " <", "->"]:
        for zero in ["", "0"]:
            for width in ["", "5", "12"]:
                for prec in ["", ".0", ".3"]:
                    spec = fa + zero + width + prec
                    for vi, (vname, vexpr) in enumerate([("n", "42"), ("pi", "3.14159"), ("s", "'ab'"), ("neg", "-7.5")]):
                        gi += 1
                        if gi % n != shard or not spec:
                            continue
                        text = "%s = %s\nprint '[{%s:%s}] {%s:%s}|'\nx = \"{%s:%s}\"\nprint x\n" % (vname, vexpr, vname, spec, vname, spec, vname, spec)
                        rep["format_spec_cells"] = rep.get("format_spec_cells", 0) + 1
                        drive(text, "format-spec-grid", True)
    # generated programs in canonical and randomised layouts
    i = 0
    profiles = [Gen, GenFn, GenMatch, GenErr]
    while time.time() < t_end:
        i += 1
        prng = random.Random((seed * 1000003 + shard) * 1000003 + i)
        g = profiles[i % 4](prng, max_depth=prng.choice([2, 3, 3]), stmts=prng.randint(2, 8))
        prog = g.program()
        if _nested_string_in_placeholder(prog):
            continue        # SG-F2: strings nested inside string placeholders are corrupted by the formatter (recorded)
        pr = Printer(prng, ALL_FREEDOMS | {"no_blank_after_header"}) if i % 2 else Printer()
        text = pr.program(prog, TRACE_PRELUDE)
        # the regular stream keeps every statement (continuation lines joined) well below the width limit
        longest, cur = 0, 0
        for line, kind in zip(text.replace("\r\n", "\n").split("\n"), pr.line_kinds):
            cur += len(line)
            if kind != "continued":
                longest = max(longest, cur); cur = 0
        if longest > 160:
            continue
        drive(text, "kgen", True)
        if prng.random() < 0.3:
            tk = _tokens(w, text)
            if tk:
                dtext, nd = ctrl_decorate(text, tk, prng)
                if nd:
                    rep["ctrl_decorated"] = rep.get("ctrl_decorated", 0) + 1
                    drive(dtext, "kgen+ctrl", True)
        if prng.random() < 0.35 and "\r" not in text:
            # #[fmt: skip] on top-level single-line statements, some with a #- -# comment between two tokens of the skipped
            # statement (top level only: the recorded indentation defect of skipped text, F-F7, cannot apply)
            lines = text.split("\n")
            kinds = list(pr.line_kinds) + ["complete"] * (len(lines) - len(pr.line_kinds))
            cands = [k for k in range(len(lines)) if kinds[k] == "complete" and lines[k] and not lines[k][0].isspace() and not lines[k].startswith("#")
                     and (k + 1 >= len(lines) or kinds[k + 1] != "continued") and "#" not in lines[k]
                     and not re.match(r"(if\b|match\b|switch\b|-)", lines[k])]       # SG-F11
            # a candidate is a whole statement: the line parses on its own and so does everything before it
            cands = [k for k in prng.sample(cands, min(len(cands), 4))
                     if _call(w, {"op": "parse", "src": lines[k] + "\n", "options": {}}).get("ok") and (k == 0 or _call(w, {"op": "parse", "src": "\n".join(lines[:k]) + "\n", "options": {}}).get("ok"))]
            if cands:
                chosen = sorted(prng.sample(cands, min(len(cands), prng.randint(1, 3))))
                toks = _tokens(w, text) or []
                line_start = [0]
                for l in lines:
                    line_start.append(line_start[-1] + len(l.encode("utf-8")) + 1)
                out = []
                for k, l in enumerate(lines):
                    if k in chosen:
                        if prng.random() < 0.7:
                            lo, hi = line_start[k], line_start[k] + len(l.encode("utf-8"))
                            inside = [j for j, t in enumerate(toks) if lo < t[0] and t[1] < hi and t[2] == "Whitespace" and 0 < j < len(toks) - 1
                                      and not any(x in toks[j - 1][2] + toks[j + 1][2] for x in ("String", "Placeholder", "Interp", "Quote", "Comment"))]
                            if inside:
                                t = toks[prng.choice(inside)]
                                b = l.encode("utf-8")
                                l = (b[:t[0] - lo] + (" #- c%d -# " % k).encode() + b[t[1] - lo:]).decode("utf-8")
                        out.append("#[fmt: skip]")
                    out.append(l)
                drive("\n".join(out), "kgen+skip", True)
        if len(rep["samples"]) < 1 and i == 3:
            f = _call(w, {"op": "format", "src": text, "options": REGULAR[1]})
            rep["samples"].append({"input": text[:400], "formatted(line_length=60)": (f.get("out") or "")[:400]})
    w.close()
    rep["distinct"] = len(rep["distinct"])
    return rep

def run(tier, seed):
    chk = Check(PID, tier, seed)
    if not chk.build():
        return chk.finish({"evaluations": 0, "distinct_nontrivial": 0, "rule": "", "samples": []})
    quick = tier == "quick"
    chk.sort_key = lambda k: (0 if ":none:" in k or not k.startswith("fmt:") else 1, k)     # unattributed violations are listed first
    cov = {"evaluations": 0, "distinct_nontrivial": 0, "samples": [], "streams": {}, "passenger_observations": [], "passenger_src": []}
    # witnesses of the recorded findings
    w = Worker()
    wrep = {"violations": [], "evaluations": 0, "formatted": 0, "ran": 0, "comments_seen": 0}
    for f in chk.known:
      for wit in [f.get("witness") or {}] + list(f.get("more_witnesses") or []):
        if wit.get("op") == "format":
            o = wit.get("options") or {"line_length": 255}
            narrow = o.get("line_length", 255) < 255
            check_one(w, wrep, wit["src"], o, "witness " + f["id"], False, narrow=narrow)
    w.close()
    chk.merge_shard(wrep)
    c01.fold(chk, cov, "format-relations", fan_out(_shard, tier=tier, seed=seed, budget_s=40 if quick else 900))
    cov.pop("passenger_observations", None); cov.pop("passenger_src", None)
    cov["rule"] = ("inputs: every parseable corpus program, a fixed subset of its single-token mutants that still parse, and generated programs of four kgen profiles in "
                   "canonical and randomised layouts (lines <= 200 characters), plus variants of corpus and generated programs with TAB / control characters inserted inside comments and string literals (columns and byte offsets diverge in pure-ASCII text); option sets: line_length 255 with the default and %s of 6 further combinations of indent "
                   "width 1-8, chain threshold 0-4, always_indent_arms (regular stream), plus a sample of widths 100/80/60/40/30/20/1 whose failures are attributed to the "
                   "recorded line-breaking finding only when the same input passes at width 255. Monitors per (input, options): no error / panic, output parses, canonical AST equal modulo cosmetic flags, "
                   "comment and literal token sequences equal, idempotence, identical behaviour for runnable inputs. distinct = distinct parseable inputs." % ("one" if quick else "all"))
    return chk.finish(cov, assumptions=["cosmetic AST flags normalised: Nested, single-expression blocks, tuple parentheses, call with_parens, if inline, map braces, string quote",
                                         "comments are compared with runs of whitespace collapsed"])
