#!/usr/bin/env python3
"""Generates MANIFEST.json from the table below (kept in one place so that it stays valid)."""
import json, os
HOOK_COMMITS = ["1d323e3"]
CHECKS = {
 "C15": dict(cat="exploration", tech="runtime monitoring: closed reference model (Rust str + unicode-segmentation + format!) over bounded-exhaustive string / index / option grids executed by the real runtime, UTF-8 validation of every string handed back to the host",
   text="Every string of <= 4 (thorough: 5) symbols over a 9-symbol alphabet mixing 1-4 byte characters, a combining mark, space, LF, CRLF and a comma is run - as a fresh host value, as a sub-slice of a concatenation and as a slice of a slice - through a batch of 400-1500 operations (all index and range arguments in and just beyond bounds, every string function of the core library with 19 patterns, loops, unpacking, interpolation, round-trip laws); results are compared element by element with the Rust oracle and every returned string is validated as UTF-8. The complete format-option grid (11 000 cells) is compared with Rust formatting; all pairs of 19 literal escape items and seeded number round trips through to_number are checked.",
   note="Trusted: Rust std / unicode-segmentation as oracle. Empty patterns, to_number on arbitrary text, and representation+precision on non-floats are outside the compared set. The same batches are the Miri / ASan workload of the sanitizer layer.", ref="4 C15"),
 "C08": dict(cat="exploration", tech="runtime monitoring: oracle over real runs under an execution limit (error text at the API boundary, catch-marker output, TimeoutArmed/Polled/Fired events of the observer hook, residue invariant, watchdog for non-return) over a shape x nesting x wrapper x limit grid",
   text="9 endless shapes x 10 nestings x 6 try/catch wrappers x 3-4 limits (complete grid on two builds in the thorough tier, seeded sample in the quick tier): each run must return before a watchdog with a timeout error, no catch block may have run, the overshoot measured inside the VM at the TimeoutFired event stays below max(3L, L + 1 s) (three attempts), the VM is quiescent afterwards and a probe script runs on the same instance. Terminating generated programs must behave identically with and without a limit.",
   note="Bounded-progress restatement of 'eventually'. Overshoot verdicts are taken inside the VM (hook H3) with serial retries; at most 8 workers run so that cores stay idle. Native-only loops are excluded as documented.", ref="4 C08"),
 "C07": dict(cat="fault_enumeration", tech="runtime monitoring: residue invariant at the VM state hook after every host API call over generated operation histories with planted faults + relational monitor against a fresh instance replaying only the completed effects",
   text="About 65 000 histories (570 000 host calls) per quick run on persistent Koto instances: succeeding scripts, scripts failing through 36 planted fault kinds after explicit effects, exported-function calls with good and bad arguments, native calls with good and bad arguments, throwing displays, compile errors, timeouts. After every call the VM state (registers, frames, builders, catch points, execution state, module placeholders) must equal the calibrated quiescent state; at the end exports and a probe battery must agree with a fresh instance that performed only the completed effects. Thorough runs use histories of up to 120 operations (register-creep horizon).",
   note="Trusted: hooks H1/H2 (read-only state snapshot); effects are explicit in the scripts, so no model of Koto is involved. Import failures are covered by C18.", ref="4 C07, 3.4.5"),
 "C16": dict(cat="exploration", tech="runtime monitoring: bounded-exhaustive hint grid against a small model of the documented matching rule + relational monitor between real runs with type checks on and off + differential monitor against the reference model",
   text="The complete grid of 14 hint positions x 22 hint names x {plain, ?} x 22 values (about 27 000 cells, each with type checks on and off) is executed by the real implementation: assert positions must raise exactly on mismatch (never with checks off), match / catch positions must fall through instead and keep selecting with checks off. Generated programs of four kgen profiles carrying hints (a few wrong) are compared with the reference model with checks on and, when they passed, with their own run with checks off.",
   note="Matching model written from the guide; guide-silent cells (Generator vs Callable, Object for untyped metamaps, Iterable for metamaps, @type inherited through @base) are pinned. Host objects are covered by C17, not here.", ref="4 C16"),
 "C12": dict(cat="fault_enumeration", tech="runtime monitoring: planted-fault enumeration with a printer-known line map, oracle over the real error trace (debug info), rendered excerpts and debug prefixes",
   text="About 230 000 programs per quick run: runtime faults of 10 kinds planted behind random multi-line filler at call depth 0-4 through 18 call-site forms - the real trace mapped through the chunk's debug info must list the fault line and the call-site lines innermost first, and every excerpt of the rendered message must quote the source line it names; 11 kinds of bad token lines planted at statement boundaries - compile error with a span inside the text, starting on the planted line, excerpt quoting it; debug statements (single / multi-line, nested in functions) - prefix equals the first line of the expression.",
   note="Line numbers come from the harness' own bookkeeping; consecutive frames that report the same line are merged (native adaptors add frames). Multi-line failing expressions are judged by line range.", ref="4 C12"),
 "C10": dict(cat="exploration", tech="runtime monitoring: relational (metamorphic) monitor over real parses and runs of layout variants of the same model program, canonical-AST equality, prefix classification against the real parser's indentation-error flag",
   text="Each generated program (four kgen profiles, about 30 000 per quick run) is printed canonically and in seeded layout variants flipping the documented freedoms (comments of three kinds, blank lines, trailing whitespace, CRLF, redundant parentheses, number and quote spelling, paren-free calls, inline vs block forms of if / arms / function bodies / maps, broken binary expressions, argument lists, list literals and call chains); the real runs must behave identically and the real parses must give the identical syntax tree (exactly for trivia-only variants, modulo the declared cosmetic flags otherwise). Trivia variants of every parseable corpus program must parse to the identical tree. Every header-line and dangling-operator prefix must be flagged as an indentation error by the real parser and complete-statement prefixes never.",
   note="No model in the verdict (real vs real), except that variants are born from the model AST by the printer; the printer stays inside the plainly documented layout forms (header expressions on one line, one broken construct per statement). AST canonicaliser works on the nodes' Debug rendering.", ref="4 C10, 3.4.2"),
 "C04": dict(cat="fault_enumeration", tech="runtime monitoring: planted-fault enumeration over generated try/catch/finally skeletons, differential monitor against the executable reference model, residue invariant at the VM state hook",
   text="About 100 000 seeded skeletons per quick run: try expressions nested to depth 3 with typed catches, finally and rethrowing handlers; faults of nine kinds planted directly, 1-3 calls deep, inside native callbacks (each / keep / fold / consume), inside generator bodies and inside string interpolation; progress lists make the state at the throw point and the finally executions visible. The reference model decides handler selection, finally value, surviving state and the uncaught message; the runs must also leave the VM quiescent (hook H1/H2) and raise no VM-monitor fault or panic.",
   note="Trusted: reference model of exception semantics and printer. Recorded defect shapes F-B1 (finally vs control flow), F-B2, F-B5 are excluded from generation and replayed as witnesses.", ref="4 C04"),
 "C03": dict(cat="exploration", tech="runtime monitoring: differential monitor against the executable reference model + context relation + bounded-exhaustive subject x pattern grid",
   text="About 110 000 seeded match / unpacking programs per quick run (traced subjects, all pattern forms, alternatives, guards, two subjects, used and ignored results; multi-assignment and for-argument unpacking over every iterable shape) are evaluated by the reference model and by the real implementation in three contexts; a grid of 19 subjects x 41 patterns x guards and x second patterns (about 13 000 cells after shape guards, all enumerated) prints the arm taken and its bindings.",
   note="Trusted: reference model matcher and printer (0 residual disagreements on 19 000 calibration programs). Recorded defect shapes F-A2/A4/A5/A7/A8 are excluded from generation and replayed as witnesses.", ref="4 C03"),
 "C02": dict(cat="exploration", tech="runtime monitoring: differential monitor against the executable reference model + context relation + bounded-exhaustive binding layouts with sentinel arguments",
   text="About 120 000 seeded programs per quick run exercising every parameter form (positional, default with traced once-only evaluation, variadic, ignored, nested tuple unpacking with leading/trailing rest, map unpacking with `as`), call form (parenthesised, piped, packed, method with self), closures (copy capture of numbers, shared containers, factories, recursion) and generators (lazy, resumable, early return, yield inside loops and try/catch/finally; consumed by for/next/to_tuple/to_list) are evaluated by the reference model and by the real implementation in three surrounding contexts. All 2 000 binding layouts required<=3 x optional<=3 x variadic x supplied<=arity+2 x 6 call forms are enumerated with sentinel arguments so that any register mix-up changes the printed binding.",
   note="Trusted: reference model and printer (0 residual disagreements on 20 000 calibration programs). Generated function bodies never assign captured names (F-A3 is replayed as a witness instead).", ref="4 C02"),
 "C01": dict(cat="exploration", tech="runtime monitoring: differential monitor of real runs against an independent executable reference model + relational monitor across surrounding contexts + bounded-exhaustive operator trees",
   text="Seeded typed programs over the core subset (about 100 000 per quick run) are evaluated by an independent reference interpreter written from the language guide and run by the real implementation; stdout (with trace lines that make operand evaluation order and single evaluation visible), the result value and the outcome class must agree, and the real runs of the same program at top level, inside a function and after 60 live locals must agree with each other. All operator trees with <= 2 binary operators over a 14-value pool are checked with minimal and full parentheses (complete in thorough).",
   note="Trusted: the reference model kvmodel (calibrated: 0 residual disagreements on 40 000 programs of the pinned tree) and the layout printer. Recorded defect shape F-A1 is avoided by generation (SG-A1), so it is not re-detected by this stream. Bounded by generator depth/size.", ref="4 C01, 3.4.1, appendix A/B"),
 "C06": dict(cat="fault_enumeration", tech="runtime monitoring: panic capture + worker-death classifier over corpus token-neighbourhood, noise, bounded-exhaustive core-lib argument tuples and re-entrancy scripts",
   text="Every host-API phase (compile, format, run, display of result or error) of the real crates is executed under a panic-capturing monitor on: the repository's own programs and their complete single-token delete/duplicate/swap neighbourhood, token soups and character noise, every native prelude function x boundary-value argument tuples (arity 0-2 quick, 0-3 thorough), and scripts whose callbacks/arguments/element metakeys touch the receiver of the running native function. Held = no panic or abnormal death outside the recorded findings on those executions; says nothing about inputs outside these families.",
   note="Trusted: panic hook + backtrace symbolisation; signature = first /repo frame outside crates/memory + core-lib entry points + masked message. Allocation failure / native stack exhaustion are exempt by the property. Native loops that never return (hangs) are inconclusive, not violations.", ref="4 C06, 3.4.6"),
 "C09": dict(cat="exploration", tech="runtime monitoring: independent position/coverage oracle over the real lexer's token stream, bounded-exhaustive input enumeration",
   text="The real lexer is run on every string of length <= 6 over a 23-symbol mode-hitting alphabet (155 M inputs; thorough adds length <= 7 over a 14-symbol sub-alphabet), on the corpus (+CRLF, +cut variants) and on seeded random inputs up to 400 bytes; each token stream is checked against offsets, char boundaries, line numbers, column restarts and logical-line indentation recomputed from the text, plus termination, panic capture and peek(n) stability.",
   note="Indentation is read as the leading whitespace of the logical line (as delimited by NewLine tokens); the error token itself is exempt; exhaustive only up to the stated length and alphabet.", ref="4 C09"),
 "C05": dict(cat="exploration", tech="runtime monitoring: structural invariant checker over every chunk real compile runs emit + online VM monitor at the instruction-observer hook + repeated-compilation relation",
   text="Every chunk the real compiler emits for the corpus and its complete single-token neighbourhood (thorough; seeded slice in quick) is decoded with the public reader and checked structurally (body starts with NewFrame and ends in a terminator, jump/catch/iterator-exit targets on boundaries of the same body, register operands and ranges inside the frame, constant kinds, capture slots, sequence/string/try depth consistent on the CFG); accepted programs are executed under the instruction observer (ip on a decoded boundary, no error instruction, register window >= frame requirement) with internal-fault classification; 22 size-scaled families are swept across every encoding edge and must be rejected or print their known value; every text is compiled 3x in-process and a sample in a second process.",
   note="Trusted: InstructionReader as the decoder; limit families' expected values; hooks H1/H3. Does not cover programs outside corpus+neighbourhood+families until kgen streams are attached.", ref="4 C05, 3.4.3, 3.4.4"),
}
NOT_YET = {}
def main():
    props = [json.loads(l) for l in open("/verif/properties.jsonl")]
    checks = []
    for p in props:
        pid = p["id"]
        if pid in CHECKS:
            c = CHECKS[pid]
            checks.append({
                "property_id": pid,
                "quick_cmd": "./check %s --tier quick" % pid,
                "thorough_cmd": "./check %s --tier thorough" % pid,
                "evidence_file": "/verif/evidence/%s.json" % pid,
                "replay_cmd_template": "./check %s --replay {path}" % pid,
                "engine": "kvrun+check",
                "level_claimed": {"category": c["cat"], "text": c["text"], "design_ref": "DESIGN.md " + c["ref"]},
                "level_note": c["note"],
                "technique": c["tech"],
            })
    na = [{"property_id": p["id"], "reason": NOT_YET.get(p["id"], "check not built yet in this round (runtime monitoring applies; see DESIGN.md section 4)")}
          for p in props if p["id"] not in CHECKS]
    m = {
        "version": 1,
        "setup_cmd": "cd /verif && ./setup.sh",
        "hooks": {
            "guard": "cargo feature koto_verif (crates koto_runtime and koto; off by default)",
            "enable": "the harness crate /verif/harness depends on /repo/crates/* by path with features = [\"koto_verif\"]; every check runs `cargo build --release --offline` there first",
            "baseline_off_cmd": "cd /repo && cargo nextest run --workspace --no-fail-fast --tool-config-file pb:/w/lib/nextest.toml --profile pb --test-threads 8 --offline",
            "source_commits": HOOK_COMMITS,
            "add_only": True,
        },
        "engines": [
            {"name": "kvrun+check", "path": "/verif/harness (Rust worker: exec service, chunk checker, VM monitor, panic capture, lexer oracle) + /verif/check, /verif/checks, /verif/kv (Python driver, generators, oracles)",
             "serves_properties": sorted(CHECKS), "kind_free_text": "runtime monitoring of the real crates: workloads are executed by a worker linked against /repo's crates with hooks on; oracles observe the executions"},
        ],
        "checks": checks,
        "not_applicable": na,
        "notes": "All checks rebuild the worker from /repo's working tree (path dependencies). Exit 0 held / 1 violation (VIOLATION line) / 2 inconclusive (build or harness failure). Known findings: /verif/known_findings.json.",
    }
    json.dump(m, open("/verif/MANIFEST.json", "w"), indent=1)
    print("wrote MANIFEST.json with", len(checks), "checks;", len(na), "not claimed")
if __name__ == "__main__":
    main()
