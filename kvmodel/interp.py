"""Reference interpreter over the model AST (DESIGN.md 3.4.1, appendix B).

Programs are born as model ASTs (tuples) and are only printed to text for the real implementation;
this interpreter never parses Koto text. Control flow uses Python exceptions; generator bodies are
evaluated by a second evaluator written as Python generator functions."""
import math
from .values import *

class BreakEx(Exception):
    def __init__(self, v): self.v = v
class ContinueEx(Exception): pass
class ReturnEx(Exception):
    def __init__(self, v): self.v = v

ARITH = {"+", "-", "*", "/", "%", "^"}
CMP = {"<", "<=", ">", ">="}

def pow_num(a, b):
    if is_int(a) and is_int(b):
        if b < 0:
            return _powf(float(a), float(b))
        return wrap(pow(a, b, 1 << 64)) if True else None
    return _powf(float(a), float(b))

def _powf(a, b):
    try:
        return math.pow(a, b)
    except OverflowError:
        # sign: negative base with odd integer exponent
        if a < 0 and b == math.floor(b) and int(b) % 2 == 1:
            return -math.inf
        return math.inf
    except ValueError:
        if a == 0 and b < 0:
            odd = b == math.floor(b) and int(b) % 2 == 1
            return -math.inf if (odd and math.copysign(1.0, a) < 0) else math.inf
        return math.nan

def trunc_rem(a, b):
    # Rust wrapping_rem: sign follows the dividend
    if b == -1:
        return 0
    r = abs(a) % abs(b)
    return -r if a < 0 else r

def arith(op, a, b):
    if op == "+":
        if is_num(a) and is_num(b) and not is_bool(a) and not is_bool(b):
            return wrap(a + b) if is_int(a) and is_int(b) else float(a) + float(b)
        if is_str(a) and is_str(b):
            if len(a) + len(b) > 20000: raise ModelLimit("string growth")
            return a + b
        if isinstance(a, KList) and isinstance(b, KList):
            if len(a.items) + len(b.items) > 5000: raise ModelLimit("list growth")
            return KList(a.items + b.items)
        if isinstance(a, KTuple) and isinstance(b, KTuple):
            if len(a.items) + len(b.items) > 5000: raise ModelLimit("tuple growth")
            return KTuple(a.items + b.items)
        if isinstance(a, KMap) and isinstance(b, KMap) and a.meta is None and b.meta is None:
            d = dict(a.d); d.update(b.d); return KMap(d)
        raise RuntimeErr("type", "+")
    if not (is_num(a) and is_num(b)) or is_bool(a) or is_bool(b):
        raise RuntimeErr("type", op)
    ints = is_int(a) and is_int(b)
    if op == "-": return wrap(a - b) if ints else float(a) - float(b)
    if op == "*": return wrap(a * b) if ints else float(a) * float(b)
    if op == "/":
        fa, fb = float(a), float(b)
        if fb == 0:
            if fa == 0 or math.isnan(fa): return math.nan
            neg = (fa < 0) != (math.copysign(1.0, fb) < 0)
            return -math.inf if neg else math.inf
        return fa / fb
    if op == "%":
        if is_int(b) and b == 0: return math.nan
        if ints: return trunc_rem(a, b)
        fa, fb = float(a), float(b)
        if fb == 0 or math.isinf(fa) or math.isnan(fa) or math.isnan(fb): return math.nan
        if math.isinf(fb): return fa
        return math.fmod(fa, fb)
    if op == "^": return pow_num(a, b)
    raise ModelLimit(op)

def compare(op, a, b):
    if is_num(a) and is_num(b) and not is_bool(a) and not is_bool(b):
        c = num_cmp(a, b)
    elif is_str(a) and is_str(b):
        ab, bb = a.encode(), b.encode()
        c = (ab > bb) - (ab < bb)
    else:
        raise RuntimeErr("type", op)
    return {"<": c < 0, "<=": c <= 0, ">": c > 0, ">=": c >= 0}[op]

class Interp:
    def __init__(self, budget=50000):
        self.out = []
        self.steps = 0
        self.budget = budget
        self.globals = {"size": KNative("size", lambda it, args: it.size_call(args)),
                        "assert": KNative("assert", lambda it, args: it.assert_call(args)),
                        "assert_eq": KNative("assert_eq", lambda it, args: it.assert_eq_call(args)),
                        "type": KNative("type", lambda it, args: it.type_call(args))}
        self.exports = {}
        self.call_depth = []

    # ---- plumbing ---------------------------------------------------------------------------
    def tick(self):
        self.steps += 1
        if self.steps > self.budget:
            raise ModelLimit("step budget")

    def emit(self, line):
        self.out.append(line)
        if len(self.out) > 4000:
            raise ModelLimit("output budget")

    def run(self, block, env=None):
        """Runs a top-level block. Returns dict(kind=ok|thrown|error, value=display, out=[lines])."""
        env = {} if env is None else env
        try:
            v = self.block(block, env)
            return {"kind": "ok", "value": display(v, False, self), "out": self.out}
        except Thrown as t:
            try:
                shown = self.display_thrown(t.value)
            except RuntimeErr:
                shown = None
            return {"kind": "thrown", "value": shown, "out": self.out}
        except RuntimeErr as e:
            return {"kind": "error", "tag": e.tag, "out": self.out}
        except (BreakEx, ContinueEx):
            raise ModelLimit("break/continue outside of a loop")
        except ReturnEx as r:
            return {"kind": "ok", "value": display(r.v, False, self), "out": self.out}
        except RecursionError:
            raise ModelLimit("model recursion")

    def display_thrown(self, v):
        if is_str(v): return v
        if isinstance(v, KMap) and v.meta is not None and "@display" in v.meta:
            return display(v, False, self)
        raise ModelLimit("thrown value without display")

    def block(self, stmts, env):
        v = None
        for s in stmts:
            v = self.ev(s, env)
        return v

    # ---- expressions ------------------------------------------------------------------------
    def ev(self, n, env):
        self.tick()
        return getattr(self, "e_" + n[0])(n, env)

    def e_null(self, n, env): return None
    def e_bool(self, n, env): return n[1]
    def e_int(self, n, env): return n[1]
    def e_float(self, n, env): return n[1]
    def e_str(self, n, env):
        parts = []
        for p in n[1]:
            if isinstance(p, str):
                parts.append(p)
            else:
                v = self.ev(p[1], env)
                parts.append(self.format_value(v, p[2] if len(p) > 2 else None))
        return "".join(parts)
    def format_value(self, v, spec):
        if spec is None:
            return display(v, False, self)
        raise ModelLimit("format spec")
    def e_list(self, n, env): return KList([self.ev(x, env) for x in n[1]])
    def e_tuple(self, n, env): return KTuple([self.ev(x, env) for x in n[1]])
    def e_map(self, n, env):
        m = KMap()
        for k, x in n[1]:
            if k.startswith("@"):
                if m.meta is None: m.meta = {}
                m.meta[k] = self.ev(x, env)
            else:
                m.d[("s", k)] = self.ev(x, env)
        return m
    def e_range(self, n, env):
        lo = None if n[1] is None else self.ev(n[1], env)
        hi = None if n[2] is None else self.ev(n[2], env)
        for b in (lo, hi):
            if b is not None and not is_num(b) or is_bool(b):
                raise RuntimeErr("type", "range bound")
        lo = None if lo is None else (int(lo) if is_float(lo) else lo)
        hi = None if hi is None else (int(hi) if is_float(hi) else hi)
        return KRange(lo, hi, n[3])
    def e_var(self, n, env):
        name = n[1]
        if name in env: return env[name]
        if name in self.exports: return self.exports[name]
        if name in self.globals: return self.globals[name]
        raise RuntimeErr("notfound", name)
    def e_self(self, n, env): return env.get("self")
    def e_paren(self, n, env): return self.ev(n[1], env)
    def e_neg(self, n, env):
        v = self.ev(n[1], env)
        if isinstance(v, KMap) and v.meta is not None and "@negate" in v.meta:
            return self.call(v.meta["@negate"], [], self_value=v)
        if not is_num(v) or is_bool(v): raise RuntimeErr("type", "negate")
        return wrap(-v) if is_int(v) else -v
    def e_not(self, n, env):
        v = self.ev(n[1], env)
        return not truthy(v)
    def e_bin(self, n, env):
        op = n[1]
        if op == "and":
            a = self.ev(n[2], env)
            return self.ev(n[3], env) if truthy(a) else a
        if op == "or":
            a = self.ev(n[2], env)
            return a if truthy(a) else self.ev(n[3], env)
        a = self.ev(n[2], env)
        b = self.ev(n[3], env)
        return self.binop(op, a, b)
    def binop(self, op, a, b):
        if isinstance(a, KMap) and a.meta is not None or isinstance(b, KMap) and b.meta is not None:
            return self.meta_binop(op, a, b)
        if op in ARITH: return arith(op, a, b)
        if op == "==": return equal(a, b, self)
        if op == "!=": return not equal(a, b, self)
        return compare(op, a, b)
    def meta_binop(self, op, a, b):
        # == and != (derived from @==) of an object on the left are modelled here, the remaining dispatch grid is C17's
        if op in ("==", "!=") and isinstance(a, KMap) and a.meta is not None and "@==" in a.meta and "@!=" not in a.meta and b is not None:
            r = truthy_bool(self.call(a.meta["@=="], [b], self_value=a))
            return r if op == "==" else not r
        raise ModelLimit("metamap operators are modelled by the object model (C17)")
    def e_cmpchain(self, n, env):
        vals = [self.ev(n[1][0], env)]
        for i, op in enumerate(n[2]):
            nxt = self.ev(n[1][i + 1], env)
            r = self.binop(op, vals[-1], nxt)
            if not truthy(r):
                return r
            vals.append(nxt)
        return True
    def e_index(self, n, env):
        c = self.ev(n[1], env)
        i = self.ev(n[2], env)
        return self.index(c, i)
    def index(self, c, i):
        if isinstance(c, (KList, KTuple)) or is_str(c):
            data = c.encode() if is_str(c) else c.items
            size = len(data)
            if is_num(i) and not is_bool(i):
                if is_float(i):
                    if math.isnan(i) or math.isinf(i): raise ModelLimit("non-finite index")
                    i = int(i)
                if i < 0 or i >= size: raise RuntimeErr("index", "out of range")
                if is_str(c):
                    return self.str_slice(c, i, i + 1, single=True)
                return data[i]
            if isinstance(i, KRange):
                lo, hi = range_bounds(i, size)
                lo = max(0, min(lo, size)); hi = max(0, min(hi, size))
                if is_str(c): return self.str_slice(c, lo, hi)
                if lo > hi: hi = lo
                return KList(data[lo:hi]) if isinstance(c, KList) else KTuple(data[lo:hi])
            raise RuntimeErr("type", "index type")
        if isinstance(c, KMap):
            if c.meta is not None and "@index" in c.meta:
                return self.call(c.meta["@index"], [i], self_value=c)
            if is_num(i) and not is_bool(i):
                i = int(i)
                if i < 0 or i >= len(c.d): raise RuntimeErr("index", "out of range")
                k = list(c.d.keys())[i]
                return KTuple([value_of_key(k), c.d[k]])
            raise RuntimeErr("type", "map index")
        if isinstance(c, KRange):
            raise ModelLimit("range index")
        raise RuntimeErr("type", "not indexable")
    def str_slice(self, s, lo, hi, single=False):
        b = s.encode()
        if single:
            # indexing a string by a number yields the grapheme that starts at that byte (pinned: error inside a character)
            try:
                rest = b[lo:].decode()
            except UnicodeDecodeError:
                raise RuntimeErr("index", "inside a character")
            if not rest: raise RuntimeErr("index", "out of range")
            # generated strings hold no combining marks, so the first grapheme is the first char
            return rest[0]
        if lo > hi: hi = lo
        try:
            b[:lo].decode(); b[:hi].decode()
            return b[lo:hi].decode()
        except UnicodeDecodeError:
            raise RuntimeErr("index", "slice inside a character")
    def e_access(self, n, env):
        c = self.ev(n[1], env)
        return self.access(c, n[2])
    def access(self, c, name):
        if isinstance(c, KMap):
            k = ("s", name)
            if k in c.d: return c.d[k]
            if c.meta is not None:
                return self.meta_access(c, name)
            if name in MAP_METHODS: return ("bound", c, "map." + name)
            raise RuntimeErr("notfound", name)
        if isinstance(c, KList) and name in LIST_METHODS: return ("bound", c, "list." + name)
        raise ModelLimit("access ." + name + " on " + type_name(c))
    def meta_access(self, c, name):
        raise ModelLimit("metamap access")
    def e_call(self, n, env):
        f = self.ev(n[1], env)
        args = self.eval_args(n[2], env)
        return self.call(f, args)
    def eval_args(self, arg_nodes, env):
        args = []
        for a in arg_nodes:
            if a[0] == "spread":
                v = self.ev(a[1], env)
                args.extend(self.iterate(v))
            else:
                args.append(self.ev(a, env))
        return args
    def e_mcall(self, n, env):
        obj = self.ev(n[1], env)
        name = n[2]
        if isinstance(obj, KMap) and ("s", name) in obj.d:
            f = obj.d[("s", name)]
            args = self.eval_args(n[3], env)
            return self.call(f, args, self_value=obj)
        args = self.eval_args(n[3], env)
        return self.builtin_method(obj, name, args)
    def e_pipe(self, n, env):
        a = self.ev(n[1], env)
        if n[2][0] == "access":
            # piping into a member is a method call: the container is self
            obj = self.ev(n[2][1], env)
            f = self.access(obj, n[2][2])
            rest = self.eval_args(n[3], env)
            return self.call(f, [a] + rest, self_value=obj)
        f = self.ev(n[2], env)
        rest = self.eval_args(n[3], env)
        return self.call(f, [a] + rest)
    def e_trace(self, n, env):
        v = self.ev(n[2], env)
        self.emit("T%d" % n[1])
        return v
    def e_print(self, n, env):
        args = [self.ev(a, env) for a in n[1]]
        if len(args) == 1:
            self.emit(display(args[0], False, self))
        else:
            self.emit(display(KTuple(args), False, self))
        return None

    # ---- calls ------------------------------------------------------------------------------
    def call(self, f, args, self_value=None):
        self.tick()
        if isinstance(f, KNative):
            return f.fn(self, args)
        if isinstance(f, tuple) and f and f[0] == "bound":
            return self.builtin_method(f[1], f[2].split(".")[1], args)
        if isinstance(f, KMap) and f.meta is not None and "@call" in f.meta:
            return self.call(f.meta["@call"], args, self_value=f)
        if not isinstance(f, KFn):
            raise RuntimeErr("type", "not callable")
        env = self.bind(f, args, self_value)
        if f.is_gen:
            return KIter(self.gen_body(f.body, env))
        if len(self.call_depth) > 60:
            raise ModelLimit("model call depth")
        self.call_depth.append(1)
        try:
            return self.block(f.body, env)
        except ReturnEx as r:
            return r.v
        finally:
            self.call_depth.pop()
    def assert_call(self, args):
        if len(args) != 1 or not is_bool(args[0]):
            raise RuntimeErr("args", "assert")
        if not args[0]:
            raise RuntimeErr("assert", "assertion failed")
        return None
    def assert_eq_call(self, args):
        if len(args) != 2:
            raise RuntimeErr("args", "assert_eq")
        if not equal(args[0], args[1], self):
            raise RuntimeErr("assert", "assertion failed")
        return None
    def type_call(self, args):
        if len(args) != 1:
            raise RuntimeErr("args", "type")
        v = args[0]
        if isinstance(v, tuple) and v and v[0] == "errstr":
            return "String"
        return type_name(v)

    def size_call(self, args):
        if len(args) != 1:
            raise RuntimeErr("args", "size")
        return self.size(args[0])

    def bind(self, f, args, self_value):
        env = dict(f.captures)
        env["self"] = self_value
        params = f.params
        n_req = sum(1 for (t, d) in params if d is None)
        n_par = len(params)
        if len(args) < n_req:
            raise RuntimeErr("args", "too few")
        if len(args) > n_par and f.variadic is None:
            raise RuntimeErr("args", "too many")
        for i, (target, default) in enumerate(params):
            if i < len(args):
                v = args[i]
            else:
                v = f.defaults[i]
            self.bind_param(target, v, env)
        if f.variadic is not None:
            env[f.variadic] = KTuple(args[n_par:])
        return env

    def bind_param(self, target, v, env):
        k = target[0]
        if k == "var":
            self.check_hint(target, v)
            env[target[1]] = v
        elif k == "ignore":
            pass
        elif k == "tpat":
            self.unpack_strict(target[1], v, env)
        elif k == "mpat":
            if not isinstance(v, KMap): raise RuntimeErr("type", "map unpack")
            for key, name in target[1]:
                if ("s", key) not in v.d: raise RuntimeErr("notfound", key)
                env[name] = v.d[("s", key)]
        else:
            raise ModelLimit("param " + k)

    type_checks = True
    def check_hint(self, target, v):
        if len(target) > 2 and target[2] is not None and self.type_checks:
            if not self.hint_matches(target[2], v):
                self.hint_failures = getattr(self, "hint_failures", 0) + 1
                raise RuntimeErr("hint", "expected " + target[2])

    def unpack_strict(self, pats, v, env):
        """Nested argument unpacking: size must match (guide), `rest...` collects."""
        if not isinstance(v, (KList, KTuple)):
            raise RuntimeErr("type", "unpack")
        items = list(v.items)
        rest_at = [i for i, p in enumerate(pats) if p[0] == "rest"]
        if rest_at:
            r = rest_at[0]
            before, after = pats[:r], pats[r + 1:]
            if len(items) < len(before) + len(after): raise RuntimeErr("size", "unpack")
            for p, x in zip(before, items): self.bind_param(p, x, env)
            mid = items[len(before):len(items) - len(after)]
            if pats[r][1] is not None:
                env[pats[r][1]] = KTuple(mid) if isinstance(v, KTuple) else KList(mid)
            for p, x in zip(after, items[len(items) - len(after):]): self.bind_param(p, x, env)
        else:
            if len(items) != len(pats): raise RuntimeErr("size", "unpack")
            for p, x in zip(pats, items): self.bind_param(p, x, env)

    def e_fn(self, n, env):
        params, variadic, body, is_gen, free = n[1], n[2], n[3], n[4], n[5]
        captures = {}
        for name in free:
            if name in env:
                captures[name] = env[name]
        defaults = [None if d is None else self.ev(d, env) for (t, d) in params]
        f = KFn(params, variadic, body, is_gen, captures, defaults)
        return f

    # ---- assignment -------------------------------------------------------------------------
    def e_assign(self, n, env):
        target, e = n[1], n[2]
        if target[0] == "var":
            fresh = target[1] not in env
            v = self.ev(e, env)
            self.check_hint(target, v)
            env[target[1]] = v
            if fresh and e[0] == "fn" and target[1] in e[5]:
                # a function assigned to a new name it refers to captures itself (guide: recursive functions)
                v.captures[target[1]] = v
            return v
        if target[0] == "index":
            c = self.ev(target[1], env)
            i = self.ev(target[2], env)
            v = self.ev(e, env)
            self.index_assign(c, i, v)
            return v
        if target[0] == "access":
            c = self.ev(target[1], env)
            v = self.ev(e, env)
            self.access_assign(c, target[2], v)
            return v
        raise ModelLimit("assign target")
    def index_assign(self, c, i, v):
        if isinstance(c, KList):
            size = len(c.items)
            if is_num(i) and not is_bool(i):
                i = int(i)
                if i < 0 or i >= size: raise RuntimeErr("index", "assign out of range")
                c.items[i] = v
                return
            if isinstance(i, KRange):
                lo, hi = range_bounds(i, size)
                if lo < 0 or hi > size or lo > hi: raise ModelLimit("range assign bounds")
                for k in range(lo, hi): c.items[k] = v
                return
            raise RuntimeErr("type", "index assign")
        if isinstance(c, KMap) and c.meta is not None and "@index_mut" in c.meta:
            self.call(c.meta["@index_mut"], [i, v], self_value=c)
            return
        if isinstance(c, KMap):
            raise ModelLimit("map index assign")
        raise RuntimeErr("type", "index assign on " + type_name(c))
    def access_assign(self, c, name, v):
        if isinstance(c, KMap):
            c.d[("s", name)] = v
            return
        raise RuntimeErr("type", "access assign")
    def e_opassign(self, n, env):
        op, target, e = n[1], n[2], n[3]
        if target[0] == "var":
            cur = self.e_var(target, env)
            rhs = self.ev(e, env)
            v = self.compound(op, cur, rhs)
            env[target[1]] = v
            return v
        if target[0] == "index":
            c = self.ev(target[1], env)
            i = self.ev(target[2], env)
            rhs = self.ev(e, env)
            cur = self.index(c, i)
            v = self.compound(op, cur, rhs)
            self.index_assign(c, i, v)
            return v
        if target[0] == "access":
            c = self.ev(target[1], env)
            rhs = self.ev(e, env)
            cur = self.access(c, target[2])
            v = self.compound(op, cur, rhs)
            self.access_assign(c, target[2], v)
            return v
        raise ModelLimit("opassign target")
    def compound(self, op, cur, rhs):
        # compound assignment is defined for numbers (and objects that overload it)
        if not (is_num(cur) and is_num(rhs)) or is_bool(cur) or is_bool(rhs):
            raise RuntimeErr("type", op + "=")
        if op == "%" and is_int(rhs) and rhs == 0:
            raise ModelLimit("x %= 0 (F-P4)")
        return arith(op, cur, rhs)
    def e_multi(self, n, env):
        targets, e = n[1], n[2]
        if e[0] == "tuple" and e[3:] == ("bare",):
            vals = [self.ev(x, env) for x in e[1]]
            v = KTuple(vals)
        else:
            v = self.ev(e, env)
            vals = self.iterate_for_unpack(v, len(targets))
        for i, t in enumerate(targets):
            x = vals[i] if i < len(vals) else None
            self.assign_target(t, x, env)
        return v
    def iterate_for_unpack(self, v, n):
        if isinstance(v, (KList, KTuple)): return list(v.items)
        if isinstance(v, KIter):
            out = []
            for _ in range(n):
                x = v.next()
                if x is StopIteration: break
                out.append(x)
            return out
        return self.iterate(v)[:max(n, 0)] if not isinstance(v, (type(None), bool, int, float)) else self._not_iterable(v)
    def _not_iterable(self, v):
        raise RuntimeErr("type", "not iterable")
    def assign_target(self, t, x, env):
        if t[0] == "var":
            self.check_hint(t, x)
            env[t[1]] = x
        elif t[0] == "ignore":
            pass
        elif t[0] == "index":
            self.index_assign(self.ev(t[1], env), self.ev(t[2], env), x)
        elif t[0] == "access":
            self.access_assign(self.ev(t[1], env), t[2], x)
        else:
            raise ModelLimit("target")

    # ---- control flow -----------------------------------------------------------------------
    def e_if(self, n, env):
        for cond, blk in n[1]:
            if truthy(self.ev(cond, env)):
                return self.block(blk, env)
        if n[2] is not None:
            return self.block(n[2], env)
        return None
    def e_switch(self, n, env):
        for cond, blk in n[1]:
            if cond is None or truthy(self.ev(cond, env)):
                return self.block(blk, env)
        return None
    def e_match(self, n, env):
        subjects = [self.ev(x, env) for x in n[1]]
        for alts, guard, blk in n[2]:
            if alts is None:
                return self.block(blk, env)
            matched = False
            for alt in alts:
                if len(alt) != len(subjects):
                    raise ModelLimit("pattern count")
                binds = {}
                if all(self.match_pat(p, v, binds) for p, v in zip(alt, subjects)):
                    env.update(binds)
                    matched = True
                    break
            if not matched:
                continue
            # the guard belongs to the arm: it is evaluated once, after one alternative matched
            if guard is not None and not truthy(self.ev(guard, env)):
                continue
            return self.block(blk, env)
        return None

    def match_pat(self, p, v, binds):
        self.tick()
        k = p[0]
        if k == "plit":
            lit = self.ev(p[1], {})
            return equal(lit, v, self)
        if k == "var":
            if len(p) > 2 and p[2] and not self.hint_matches(p[2], v):
                return False
            binds[p[1]] = v
            return True
        if k == "ignore":
            if len(p) > 1 and p[1] and not self.hint_matches(p[1], v):
                return False
            return True
        if k == "tpat":
            pats = p[1]
            if not pats:
                raise ModelLimit("`()` pattern (F-A8: matches null instead of the empty tuple)")
            rest_at = [i for i, x in enumerate(pats) if x[0] == "rest"]
            if not isinstance(v, (KList, KTuple)):
                if rest_at:
                    raise ModelLimit("ellipsis pattern against a non-container (F-A4)")
                if is_str(v) or isinstance(v, (KMap, KRange)):
                    raise ModelLimit("tuple pattern against string/map/range (pinned)")
                return False
            items = list(v.items)
            if rest_at:
                r = rest_at[0]
                before, after = pats[:r], pats[r + 1:]
                if len(items) < len(before) + len(after):
                    return False
                for q, x in zip(before, items):
                    if not self.match_pat(q, x, binds): return False
                for q, x in zip(after, items[len(items) - len(after):]):
                    if not self.match_pat(q, x, binds): return False
                mid = items[len(before):len(items) - len(after)]
                if pats[r][1] is not None:
                    binds[pats[r][1]] = KTuple(mid) if isinstance(v, KTuple) else KList(mid)
                return True
            if len(items) != len(pats):
                return False
            for q, x in zip(pats, items):
                if not self.match_pat(q, x, binds): return False
            return True
        if k == "mpat":
            if not isinstance(v, KMap):
                if v is None or is_bool(v):
                    raise ModelLimit("map pattern against null/bool (F-A7)")
                if not (is_num(v) or is_str(v)):
                    raise ModelLimit("map pattern against " + type_name(v))
                return False
            for key, name in p[1]:
                if ("s", key) not in v.d:
                    return False
            for key, name in p[1]:
                binds[name] = v.d[("s", key)]
            return True
        raise ModelLimit("pattern " + k)

    def e_while(self, n, env):
        return self.loop(lambda: truthy(self.ev(n[1], env)), n[2], env)
    def e_until(self, n, env):
        return self.loop(lambda: not truthy(self.ev(n[1], env)), n[2], env)
    def e_loop(self, n, env):
        return self.loop(lambda: True, n[1], env)
    def loop(self, cond, body, env):
        result = None
        while cond():
            self.tick()
            try:
                result = self.block(body, env)
            except BreakEx as b:
                return b.v
            except ContinueEx:
                result = None
        return result
    def e_for(self, n, env):
        targets, it, body = n[1], n[2], n[3]
        src = self.ev(it, env)
        result = None
        for item in self.iter_lazy(src):
            self.tick()
            self.bind_for(targets, item, env)
            try:
                result = self.block(body, env)
            except BreakEx as b:
                return b.v
            except ContinueEx:
                result = None
        return result
    def bind_for(self, targets, item, env):
        if len(targets) == 1:
            self.assign_target(targets[0], item, env)
            return
        if isinstance(item, (KList, KTuple)):
            vals = list(item.items)
        else:
            vals = self.iterate_for_unpack(item, len(targets))
        for i, t in enumerate(targets):
            self.assign_target(t, vals[i] if i < len(vals) else None, env)
    def e_break(self, n, env):
        raise BreakEx(None if n[1] is None else self.ev(n[1], env))
    def e_continue(self, n, env):
        raise ContinueEx()
    def e_return(self, n, env):
        raise ReturnEx(None if n[1] is None else self.ev(n[1], env))
    def e_throw(self, n, env):
        v = self.ev(n[1], env)
        if is_str(v) or (isinstance(v, KMap) and v.meta is not None and "@display" in v.meta):
            raise Thrown(v)
        raise RuntimeErr("type", "throw needs a string or a displayable object")
    def e_yield(self, n, env):
        raise ModelLimit("yield outside of a generator evaluator position")
    def e_block(self, n, env):
        return self.block(n[1], env)
    def e_try(self, n, env):
        body, catches, fin = n[1], n[2], n[3]
        try:
            try:
                v = self.block(body, env)
            except (Thrown, RuntimeErr) as ex:
                v = self.run_catch(ex, catches, env)
        except BaseException:
            if fin is not None:
                self.block(fin, env)
            raise
        if fin is not None:
            return self.block(fin, env)
        return v
    def caught_value(self, ex):
        if isinstance(ex, Thrown):
            return ex.value
        return ("errstr", ex.tag)
    def run_catch(self, ex, catches, env):
        val = self.caught_value(ex)
        for target, hint, blk in catches:
            if hint is not None and not self.hint_matches(hint, val):
                continue
            if target is not None and target[0] == "var":
                env[target[1]] = val
            return self.block(blk, env)
        raise ex
    def hint_matches(self, hint, v):
        if hint == "Any": return True
        if isinstance(v, tuple) and v and v[0] == "errstr":
            return hint == "String"
        if hint.endswith("?"):
            return v is None or self.hint_matches(hint[:-1], v)
        if hint == "Indexable": return isinstance(v, (KList, KTuple, KMap)) or is_str(v)
        if hint == "Iterable": return isinstance(v, (KList, KTuple, KRange, KIter)) or is_str(v) or (isinstance(v, KMap) and v.meta is None)
        if hint == "Callable": return isinstance(v, (KFn, KNative)) and not (isinstance(v, KFn) and v.is_gen)
        return type_name(v) == hint

    # ---- iteration --------------------------------------------------------------------------
    def iterate(self, v):
        return list(self.iter_lazy(v))
    def iter_lazy(self, v):
        if isinstance(v, (KList, KTuple)):
            # iteration works on a snapshot of a tuple; lists are shared (pinned: a list iterator sees pushes) - generated
            # programs never mutate a list while iterating it
            return iter(list(v.items))
        if isinstance(v, KRange):
            return iter(range_values(v))
        if is_str(v):
            return iter(list(v))
        if isinstance(v, KMap):
            if v.meta is not None:
                raise ModelLimit("iterating an object")
            return iter([KTuple([value_of_key(k), x]) for k, x in v.d.items()])
        if isinstance(v, KIter):
            def gen():
                while True:
                    x = v.next()
                    if x is StopIteration: return
                    yield x
            return gen()
        raise RuntimeErr("type", "not iterable")

    # ---- generators (second evaluator) ------------------------------------------------------
    def gen_body(self, body, env):
        try:
            yield from self.g_block(body, env)
        except ReturnEx:
            return
    def g_block(self, stmts, env):
        v = None
        for s in stmts:
            v = yield from self.g_ev(s, env)
        return v
    def g_ev(self, n, env):
        k = n[0]
        if not contains_yield(n):
            return self.ev(n, env)
        self.tick()
        if k == "yield":
            v = self.ev(n[1], env)
            yield v
            return None
        if k == "if":
            for cond, blk in n[1]:
                if truthy(self.ev(cond, env)):
                    return (yield from self.g_block(blk, env))
            if n[2] is not None:
                return (yield from self.g_block(n[2], env))
            return None
        if k in ("while", "until", "loop"):
            result = None
            while True:
                self.tick()
                if k == "while" and not truthy(self.ev(n[1], env)): break
                if k == "until" and truthy(self.ev(n[1], env)): break
                body = n[1] if k == "loop" else n[2]
                try:
                    result = yield from self.g_block(body, env)
                except BreakEx as b:
                    return b.v
                except ContinueEx:
                    result = None
            return result
        if k == "for":
            src = self.ev(n[2], env)
            result = None
            for item in self.iter_lazy(src):
                self.tick()
                self.bind_for(n[1], item, env)
                try:
                    result = yield from self.g_block(n[3], env)
                except BreakEx as b:
                    return b.v
                except ContinueEx:
                    result = None
            return result
        if k == "try":
            body, catches, fin = n[1], n[2], n[3]
            try:
                try:
                    v = yield from self.g_block(body, env)
                except (Thrown, RuntimeErr) as ex:
                    val = self.caught_value(ex)
                    handled = False
                    for target, hint, blk in catches:
                        if hint is not None and not self.hint_matches(hint, val):
                            continue
                        if target is not None and target[0] == "var":
                            env[target[1]] = val
                        v = yield from self.g_block(blk, env)
                        handled = True
                        break
                    if not handled:
                        raise
            except GeneratorExit:
                raise
            except BaseException:
                if fin is not None:
                    yield from self.g_block(fin, env)
                raise
            if fin is not None:
                return (yield from self.g_block(fin, env))
            return v
        if k == "assign" and n[1][0] == "var" and n[2][0] == "yield":
            v = self.ev(n[2][1], env)
            yield v
            env[n[1][1]] = None
            return None
        raise ModelLimit("yield inside " + k)

    # ---- builtin methods (the small core-lib subset generated programs use) -------------------
    def builtin_method(self, obj, name, args):
        if isinstance(obj, KList):
            if name == "push" and len(args) == 1:
                obj.items.append(args[0]); return obj
            if name == "pop" and not args:
                return obj.items.pop() if obj.items else None
            if name == "to_tuple" and not args: return KTuple(obj.items)
            if name == "to_list" and not args: return KList(obj.items)
        if isinstance(obj, KTuple):
            if name == "to_list" and not args: return KList(obj.items)
            if name == "to_tuple" and not args: return obj
        if isinstance(obj, KMap) and obj.meta is None:
            if name == "insert" and len(args) == 2:
                k = key_of(args[0]); old = obj.d.get(k); obj.d[k] = args[1]; return old
            if name == "get" and len(args) in (1, 2):
                k = key_of(args[0])
                return obj.d.get(k, args[1] if len(args) == 2 else None)
            if name == "remove" and len(args) == 1:
                return obj.d.pop(key_of(args[0]), None)
            if name == "contains_key" and len(args) == 1:
                return key_of(args[0]) in obj.d
            if name == "keys" and not args:
                return KIter(iter([value_of_key(k) for k in list(obj.d.keys())]))
            if name == "values" and not args:
                return KIter(iter(list(obj.d.values())))
        if isinstance(obj, KRange):
            if name == "to_tuple" and not args: return KTuple(list(range_values(obj)))
            if name == "to_list" and not args: return KList(list(range_values(obj)))
        if isinstance(obj, (KList, KTuple, KIter, KRange)) and name in ("each", "keep", "fold", "consume", "any", "find", "count"):
            src = self.iter_lazy(obj)
            if name == "each" and len(args) == 1:
                f = args[0]
                return KIter((self.call(f, [x]) for x in src))
            if name == "keep" and len(args) == 1:
                f = args[0]
                def keep_gen():
                    for x in src:
                        r = self.call(f, [x])
                        if not is_bool(r): raise RuntimeErr("type", "keep predicate must return a Bool")
                        if r: yield x
                return KIter(keep_gen())
            if name == "fold" and len(args) == 2:
                acc = args[0]
                for x in src:
                    acc = self.call(args[1], [acc, x])
                return acc
            if name == "consume" and not args:
                for x in src: pass
                return None
            if name == "count" and not args:
                return sum(1 for _ in src)
            if name == "any" and len(args) == 1:
                for x in src:
                    r = self.call(args[0], [x])
                    if not is_bool(r): raise RuntimeErr("type", "any predicate must return a Bool")
                    if r: return True
                return False
            if name == "find" and len(args) == 1:
                for x in src:
                    r = self.call(args[0], [x])
                    if not is_bool(r): raise RuntimeErr("type", "find predicate must return a Bool")
                    if r: return x
                return None
        if isinstance(obj, KIter):
            if name == "to_tuple" and not args: return KTuple(self.iterate(obj))
            if name == "to_list" and not args: return KList(self.iterate(obj))
            if name == "next" and not args:
                x = obj.next()
                return None if x is StopIteration else ("iterout", x)
        if isinstance(obj, tuple) and obj and obj[0] == "iterout" and name == "get" and not args:
            return obj[1]
        if name == "size" and not args:
            return self.size(obj)
        raise ModelLimit("method %s on %s" % (name, type_name(obj)))
    def size(self, v):
        if isinstance(v, (KList, KTuple)): return len(v.items)
        if is_str(v): return len(v.encode())
        if isinstance(v, KMap) and v.meta is None: return len(v.d)
        if isinstance(v, KRange):
            try:
                return len(range_values(v))
            except ModelLimit:
                raise
        raise RuntimeErr("type", "size")

MAP_METHODS = {"insert", "get", "remove", "contains_key", "keys", "values"}
LIST_METHODS = {"push", "pop", "to_tuple", "to_list"}

_yield_cache = {}
def contains_yield(n):
    """True when the node contains a yield that belongs to the current function (not to a nested fn)."""
    if not isinstance(n, tuple):
        if isinstance(n, list):
            return any(contains_yield(x) for x in n)
        return False
    key = id(n)
    r = _yield_cache.get(key)
    if r is not None and r[0] is n:
        return r[1]
    if n and n[0] == "yield":
        res = True
    elif n and n[0] == "fn":
        res = False
    else:
        res = any(contains_yield(x) for x in n[1:] if isinstance(x, (tuple, list)))
    if len(_yield_cache) > 200000:
        _yield_cache.clear()
    _yield_cache[key] = (n, res)
    return res
