//! kvrun: the worker binary of the koto runtime-monitoring harness
//!
//! `kvrun serve` speaks JSON lines on stdin/stdout; other sub-commands run a complete
//! (shardable) monitor in-process and print one JSON report.

mod probe;
mod unsafeslice;
mod chunkcheck;
#[cfg(feature = "arc")]
mod conc;
mod exec;
mod inst;
mod lexcheck;
mod monitor;
mod ops;
mod panics;
mod serdecheck;
mod strcheck;

use serde_json::{Value, json};
use std::io::{BufRead, Write};

fn set_limits() {
    // address space limit: allocation exhaustion is outside every property, it must not take
    // the machine down
    let gib: u64 = 1 << 30;
    let limit = std::env::var("KV_AS_LIMIT_GIB")
        .ok()
        .and_then(|s| s.parse::<u64>().ok())
        .unwrap_or(3);
    if limit > 0 {
        let lim = libc::rlimit {
            rlim_cur: limit * gib,
            rlim_max: limit * gib,
        };
        unsafe {
            libc::setrlimit(libc::RLIMIT_AS, &lim);
        }
    }
}

fn serve() {
    let stdin = std::io::stdin();
    let stdout = std::io::stdout();
    let mut out = stdout.lock();
    for line in stdin.lock().lines() {
        let Ok(line) = line else { break };
        if line.trim().is_empty() {
            continue;
        }
        let req: Value = match serde_json::from_str(&line) {
            Ok(v) => v,
            Err(e) => {
                writeln!(out, "{}", json!({"harness_error": format!("bad request: {e}")})).ok();
                out.flush().ok();
                continue;
            }
        };
        let op = req["op"].as_str().unwrap_or("exec");
        let mut resp = match op {
            "ping" => json!({"pong": true}),
            "exec" => exec::exec(&exec::ExecRequest::from_json(&req)),
            "exec_trace" => exec::exec_trace(&exec::ExecRequest::from_json(&req)),
            "tokens" => ops::tokens(req["src"].as_str().unwrap_or("")),
            "format" => ops::format(req["src"].as_str().unwrap_or(""), &req["options"]),
            "parse" => ops::parse(req["src"].as_str().unwrap_or(""), &req["options"]),
            "prelude" => ops::prelude(),
            "lexcheck" => lexcheck::check_one(req["src"].as_str().unwrap_or("")),
            "opcodes" => {
                let counts = monitor::opcode_counts();
                json!({"opcodes": counts.iter().map(|(n, c)| json!([n, c])).collect::<Vec<_>>()})
            }
            op if op.starts_with("inst_") => inst::op(&req),
            "quit" => break,
            other => json!({"harness_error": format!("unknown op {other}")}),
        };
        if let (Some(id), Value::Object(m)) = (req.get("id"), &mut resp) {
            m.insert("id".into(), id.clone());
        }
        writeln!(out, "{resp}").ok();
        out.flush().ok();
    }
}

fn real_main() {
    let args: Vec<String> = std::env::args().collect();
    let cmd = args.get(1).map(|s| s.as_str()).unwrap_or("serve");
    match cmd {
        "serve" => serve(),
        "strings" => {
            // kvrun strings <max_symbols> <shard> <n_shards>
            let max: usize = args.get(2).and_then(|s| s.parse().ok()).unwrap_or(2);
            let shard: usize = args.get(3).and_then(|s| s.parse().ok()).unwrap_or(0);
            let n: usize = args.get(4).and_then(|s| s.parse().ok()).unwrap_or(1);
            match panics::guarded(|| strcheck::exhaustive(max, shard, n)) {
                Ok(v) => println!("{v}"),
                Err(p) => println!("{}", json!({"panic": panics::to_json(&p)})),
            }
        }
        "serde" => {
            // kvrun serde <seed> <trees> <rust values> <corruptions per document>
            let seed: u64 = args.get(2).and_then(|s| s.parse().ok()).unwrap_or(1);
            let trees: u64 = args.get(3).and_then(|s| s.parse().ok()).unwrap_or(100);
            let rust: u64 = args.get(4).and_then(|s| s.parse().ok()).unwrap_or(100);
            let corr: usize = args.get(5).and_then(|s| s.parse().ok()).unwrap_or(5);
            match panics::guarded(|| serdecheck::run(seed, trees, rust, corr)) {
                Ok(v) => println!("{v}"),
                Err(p) => println!("{}", json!({"panic": panics::to_json(&p)})),
            }
        }
        #[cfg(feature = "arc")]
        "conc" => {
            // kvrun conc <seed> <rounds> <max ops per thread> <inject yields 0|1>
            let seed: u64 = args.get(2).and_then(|s| s.parse().ok()).unwrap_or(1);
            let rounds: u64 = args.get(3).and_then(|s| s.parse().ok()).unwrap_or(20);
            let max_ops: usize = args.get(4).and_then(|s| s.parse().ok()).unwrap_or(300);
            let yields = args.get(5).map(|s| s == "1").unwrap_or(true);
            println!("{}", conc::run(seed, rounds, max_ops, yields));
        }
        #[cfg(feature = "arc")]
        "conc-round" => {
            // kvrun conc-round <mix> <threads> <ops> <round seed> <inject yields 0|1> <repeats>
            let mix = conc::mix_from_name(args.get(2).map(|s| s.as_str()).unwrap_or("")).expect("mix name");
            let threads: usize = args.get(3).and_then(|s| s.parse().ok()).unwrap_or(2);
            let ops: usize = args.get(4).and_then(|s| s.parse().ok()).unwrap_or(100);
            let seed: u64 = args.get(5).and_then(|s| s.parse().ok()).unwrap_or(1);
            let yields = args.get(6).map(|s| s == "1").unwrap_or(true);
            let repeats: u64 = args.get(7).and_then(|s| s.parse().ok()).unwrap_or(1);
            conc::install_panic_hook();
            let mut faults = Vec::new();
            for _ in 0..repeats {
                if let Err(f) = conc::run_round(mix, threads, ops, seed, yields) {
                    faults.push(f);
                    break;
                }
            }
            println!("{}", json!({"faults": faults}));
        }
        "unsafe-slice" => {
            // kvrun unsafe-slice <scale>   (the Miri / ASan workload)
            let scale: usize = args.get(2).and_then(|s| s.parse().ok()).unwrap_or(1);
            println!("{}", unsafeslice::run(scale));
        }
        "format-grid" => match panics::guarded(strcheck::format_grid) {
            Ok(v) => println!("{v}"),
            Err(p) => println!("{}", json!({"panic": panics::to_json(&p)})),
        },
        "lex" => {
            // kvrun lex <main|sub> <max_len> <shard> <n_shards>
            let alphabet = if args.get(2).map(|s| s.as_str()) == Some("sub") {
                lexcheck::ALPHABET_SUB
            } else {
                lexcheck::ALPHABET_MAIN
            };
            let max_len: usize = args.get(3).and_then(|s| s.parse().ok()).unwrap_or(4);
            let shard: usize = args.get(4).and_then(|s| s.parse().ok()).unwrap_or(0);
            let n: usize = args.get(5).and_then(|s| s.parse().ok()).unwrap_or(1);
            let r = panics::guarded(|| lexcheck::exhaustive(alphabet, max_len, shard, n, 200));
            match r {
                Ok(v) => println!("{v}"),
                Err(p) => println!("{}", json!({"panic": panics::to_json(&p)})),
            }
        }
        other => {
            eprintln!("unknown sub-command {other}");
            std::process::exit(2);
        }
    }
}

fn main() {
    // Miri has no setrlimit and interprets on its own (small) stack model
    #[cfg(not(miri))]
    set_limits();
    panics::install();
    // Run on a thread with a large stack: deeply nested inputs recurse in the parser/compiler
    let handle = std::thread::Builder::new()
        .stack_size(if cfg!(miri) { 16 << 20 } else { 512 << 20 })
        .spawn(|| {
            monitor::install();
            real_main()
        })
        .expect("failed to spawn the main thread");
    if let Err(p) = handle.join() {
        let m = p.downcast_ref::<String>().cloned().or_else(|| p.downcast_ref::<&str>().map(|s| s.to_string())).unwrap_or_default();
        #[cfg(feature = "arc")]
        let at = conc::LAST_PANIC_LOCATION.lock().map(|l| l.clone()).unwrap_or_default();
        #[cfg(not(feature = "arc"))]
        let at = String::new();
        eprintln!("main thread panicked: {m} @ {at}");
        std::process::exit(3);
    }
}
