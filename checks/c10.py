"""C10 layout and alternative spellings never change meaning; cut-off input is an indentation error.
Relational monitors over real executions: (a) every generated program (four kgen profiles) is
printed canonically and in seeded layout variants that flip the documented freedoms - behaviour
(stdout, result, outcome class) must be identical, the canonical syntax tree must be identical for
trivia-only variants and identical modulo the declared cosmetic flags for all variants; (b) trivia
variants of the repository's own programs (comments, blank lines, trailing whitespace, CRLF) must
parse to the identical tree; (c) every line prefix of generated and corpus programs is classified:
header / dangling-operator prefixes must be reported as indentation errors, complete-statement
prefixes never."""
import os, random, re, time
from .common import *
from .modelrun import *
from . import c01
from kv.pool import fan_out
from kvmodel.gen import Gen, GenFn, GenMatch, GenErr
from kvmodel.printer import Printer, TRACE_PRELUDE, TRIVIA_FREEDOMS, ALL_FREEDOMS

PID = "C10"
PROFILES = [("core", Gen), ("fn", GenFn), ("match", GenMatch), ("err", GenErr)]
NORM_ALL = {"strip_nested": True, "strip_cosmetic": True, "strip_quotes": True}
NORM_NONE = {}

def _parse(w, src, opts):
    try:
        return w.call({"op": "parse", "src": src, "options": opts}, timeout=20)
    except (WorkerDied, WorkerHang):
        return {"ok": False, "error": "worker died or hung"}

def _variants_shard(shard, n, tier, seed, budget_s):
    w = Worker()
    t_end = time.time() + budget_s
    rep = {"violations": [], "evaluations": 0, "distinct": set(), "samples": [], "passenger": [], "programs": 0, "variants": 0, "variants_differing_in_text": 0,
           "ast_compared": 0, "prefixes": 0, "prefix_headers": 0, "prefix_complete": 0, "prefix_operator": 0, "freedoms_used": {}}
    k_variants = 3 if tier == "quick" else 8
    i = 0
    while time.time() < t_end:
        i += 1
        pname, G = PROFILES[i % len(PROFILES)]
        rng = random.Random((seed * 1000003 + shard) * 1000003 + i)
        g = G(rng, max_depth=rng.choice([2, 3, 3, 4]), stmts=rng.randint(2, 9))
        prog = g.program()
        cp = Printer()
        canon = cp.program(prog, TRACE_PRELUDE)
        r0 = w.exec(canon, timeout=20, limit_ms=4000)
        rep["evaluations"] += 1
        rep["programs"] += 1
        v0 = c01.canon_view(real_view(r0))
        if r0.get("outcome") in ("compile_error", "hang", "died", "panic"):
            continue
        ast_plain = _parse(w, canon, NORM_NONE)
        ast_norm = _parse(w, canon, NORM_ALL)
        rep["distinct"].add(sha(canon))
        for k in range(k_variants):
            vr = random.Random(seed * 7919 + shard * 104729 + i * 31 + k)
            trivia_only = k == 0
            freedoms = TRIVIA_FREEDOMS if trivia_only else ALL_FREEDOMS
            var = Printer(vr, freedoms).program(prog, TRACE_PRELUDE)
            rep["variants"] += 1
            if var == canon:
                continue
            rep["variants_differing_in_text"] += 1
            r1 = w.exec(var, timeout=20, limit_ms=4000)
            rep["evaluations"] += 1
            v1 = c01.canon_view(real_view(r1))
            if v1 != v0:
                rep["violations"].append({"key": "layout-behaviour:%s" % sha(var), "summary": "a layout variant (%s) behaves differently: canonical %s, variant %s" % (
                    "trivia only" if trivia_only else "all freedoms", str(v0)[:100], str(v1)[:160]), "case": {"canonical": canon, "variant": var, "canonical_view": v0, "variant_view": v1}})
                continue
            a1 = _parse(w, var, NORM_NONE if trivia_only else NORM_ALL)
            ref = ast_plain if trivia_only else ast_norm
            rep["ast_compared"] += 1
            if not (a1.get("ok") and ref.get("ok") and a1["canon"] == ref["canon"]):
                rep["violations"].append({"key": "layout-ast:%s" % sha(var), "summary": "a layout variant (%s) parses to a different syntax tree" % ("trivia only" if trivia_only else "all freedoms, cosmetic flags normalised"),
                                          "case": {"canonical": canon, "variant": var, "canonical_ast": (ref.get("canon") or ref.get("error") or "")[:3000], "variant_ast": (a1.get("canon") or a1.get("error") or "")[:3000]}})
        # prefixes of the canonical text
        if i % 3 == 0:
            lines = canon.split("\n")[:-1]
            kinds = cp.line_kinds
            for li in range(len(lines)):
                kind = kinds[li] if li < len(kinds) else "?"
                if kind not in ("header", "complete"):
                    continue
                prefix = "\n".join(lines[:li + 1]) + ("\n" if rng.random() < 0.5 else "")
                pr = _parse(w, prefix, NORM_NONE)
                rep["prefixes"] += 1
                if kind == "header":
                    rep["prefix_headers"] += 1
                    if pr.get("ok") or not pr.get("indent_error"):
                        rep["violations"].append({"key": "prefix-header:%s" % sha(prefix), "summary": "a program cut off after the header line `%s` is not reported as an indentation error: %s" % (
                            lines[li].strip()[:60], "parsed" if pr.get("ok") else (pr.get("error") or "")[:80]), "case": {"src": prefix, "last_line": lines[li], "parse": pr}})
                else:
                    rep["prefix_complete"] += 1
                    if (not pr.get("ok")) and pr.get("indent_error"):
                        rep["violations"].append({"key": "prefix-complete:%s" % sha(prefix), "summary": "a program cut off after the complete statement `%s` is reported as an indentation error" % lines[li].strip()[:60],
                                                  "case": {"src": prefix, "last_line": lines[li], "parse": pr}})
                    # dangling `=` / binary operator at the line end
                    m = re.match(r"^(\s*[a-z_][a-z0-9_]*) = (.+)$", lines[li])
                    if m and rng.random() < 0.5:
                        ops = [mm.end() for mm in re.finditer(r" (\+|-|\*|/|%|and|or|==|!=|<=|>=|<|>)(?= )", lines[li])]
                        cut = None
                        if ops and rng.random() < 0.7:
                            cut = lines[li][:rng.choice(ops)]
                            # only cuts outside brackets and strings are judged
                            head = cut
                            if head.count("(") != head.count(")") or head.count("[") != head.count("]") or head.count("{") != head.count("}") or head.count("'") % 2 or head.count('"') % 2:
                                cut = None
                        if cut is None:
                            cut = m.group(1) + " ="
                        prefix2 = "\n".join(lines[:li] + [cut]) + "\n"
                        pr2 = _parse(w, prefix2, NORM_NONE)
                        rep["prefixes"] += 1
                        rep["prefix_operator"] += 1
                        if pr2.get("ok") or not pr2.get("indent_error"):
                            rep["violations"].append({"key": "prefix-operator:%s" % sha(prefix2), "summary": "a program cut off after `%s` at a line end is not reported as an indentation error: %s" % (
                                cut.strip()[-40:], "parsed" if pr2.get("ok") else (pr2.get("error") or "")[:80]), "case": {"src": prefix2, "parse": pr2}})
        if len(rep["samples"]) < 1 and i == 5:
            rep["samples"].append({"canonical": canon[:500], "variant": var[:700]})
    w.close()
    rep["distinct"] = len(rep["distinct"])
    return rep

# (`else` alone is not classified in corpus programs: it may be the else arm of a match / switch)
_HEADER = re.compile(r"^\s*(if\b.*|else if\b.*|for\b.*\bin\b.*|while\b.+|until\b.+|loop|try|catch\b.*|finally|match\b.+|switch)\s*$")

def _corpus_shard(shard, n, tier, seed, budget_s):
    w = Worker()
    rng = rng_for(seed, "c10-corpus", shard)
    progs = corpus_mod.load()
    rep = {"violations": [], "evaluations": 0, "distinct": set(), "samples": [], "passenger": [], "trivia_variants": 0, "prefixes": 0, "prefix_headers": 0, "prefix_complete_parsed": 0}
    t_end = time.time() + budget_s
    for pi, p in enumerate(progs):
        if pi % n != shard or time.time() > t_end:
            continue
        src = p["src"]
        base = _parse(w, src, NORM_NONE)
        if not base.get("ok"):
            continue
        try:
            toks = w.call({"op": "tokens", "src": src}, timeout=10).get("tokens") or []
        except (WorkerDied, WorkerHang):
            continue
        rep["distinct"].add(sha(src))
        b = src.encode()
        multiline_token = any(name != "NewLine" and b"\n" in b[s0:e0] for (s0, e0, name) in toks)
        for k in range(2 if tier == "quick" else 6):
            # trivia inserter: at NewLine tokens only (never inside strings or comments)
            out = []
            last = 0
            for (s0, e0, name) in toks:
                if name == "NewLine":
                    out.append(b[last:s0])
                    r = rng.random()
                    if r < 0.08: out.append(b"  # c")
                    elif r < 0.14: out.append(b"   ")
                    elif r < 0.17: out.append(b" #- m -#")
                    out.append(b[s0:e0])
                    if rng.random() < 0.05:
                        out.append(b"\n")
                    last = e0
            out.append(b[last:])
            var = b"".join(out).decode("utf-8", "replace")
            crlf = k % 2 == 1 and not multiline_token     # CRLF inside a multi-line string or comment changes its contents
            if crlf:
                var = var.replace("\r\n", "\n").replace("\n", "\r\n")
            if var == src:
                continue
            rep["trivia_variants"] += 1
            rep["evaluations"] += 1
            a1 = _parse(w, var, NORM_NONE)
            if not (a1.get("ok") and a1["canon"] == base["canon"]):
                rep["violations"].append({"key": "corpus-trivia:%s" % sha(var), "summary": "adding comments / blank lines / trailing whitespace%s to %s changes the syntax tree: %s" % (
                    " / CRLF" if crlf else "", p["id"], "parse error " + (a1.get("error") or "")[:80] if not a1.get("ok") else "different tree"),
                    "case": {"original": src, "variant": var, "origin": p["id"]}})
            if len(rep["samples"]) < 1:
                rep["samples"].append({"origin": p["id"], "variant": var[:300]})
        # prefixes: conservative token classifier
        lines = src.split("\n")
        if "'" in src and "\n" in src and any(l.count("'") % 2 or l.count('"') % 2 for l in lines):
            continue        # multi-line strings: line-based cutting is unreliable
        for li, line in enumerate(lines[:-1]):
            if rng.random() > (0.3 if tier == "quick" else 1.0):
                continue
            stripped = line.split("#")[0].rstrip()
            if not stripped.strip():
                continue
            prefix = "\n".join(lines[:li + 1]) + "\n"
            if _HEADER.match(stripped) and "then" not in stripped and not stripped.rstrip().endswith(","):
                # only judged when the full program has an indented block right after this line
                nxt = next((l for l in lines[li + 1:] if l.strip() and not l.strip().startswith("#")), "")
                ind = len(line) - len(line.lstrip())
                if len(nxt) - len(nxt.lstrip()) > ind:
                    pr = _parse(w, prefix, NORM_NONE)
                    rep["prefixes"] += 1
                    rep["prefix_headers"] += 1
                    rep["evaluations"] += 1
                    if pr.get("ok") or not pr.get("indent_error"):
                        rep["violations"].append({"key": "corpus-prefix-header:%s" % sha(prefix), "summary": "%s cut off after the header line `%s` is not reported as an indentation error: %s" % (
                            p["id"], stripped.strip()[:60], "parsed" if pr.get("ok") else (pr.get("error") or "")[:80]), "case": {"src": prefix, "origin": p["id"]}})
            else:
                pr = _parse(w, prefix, NORM_NONE)
                rep["evaluations"] += 1
                if pr.get("ok"):
                    # the prefix is a complete program: it must of course not be an indentation error (it parsed)
                    rep["prefix_complete_parsed"] += 1
    w.close()
    rep["distinct"] = len(rep["distinct"])
    return rep

KEYWORDS = ["if", "else", "then", "and", "or", "not", "in", "as", "for", "while", "until", "loop", "match", "switch", "try", "catch", "finally", "throw", "return", "yield",
            "break", "continue", "let", "export", "import", "from", "null", "true", "false", "self", "debug", "await", "const"]
# N: an identifier; every template is a complete program whose behaviour does not depend on the spelling of N
NAME_TEMPLATES = [
    "N = 3\nx = if false then 1 else N\nprint x", "N = 3\nx = if N == 3 then N else 0\nprint x", "N = 3\nx = if false\n  1\nelse\n  N\nprint x", "N = 3\nif N\n  print 1\nelse if N\n  print 2",
    "N = 3\nprint N + 1", "N = true\nprint not N", "N = 3\nprint 1 and N", "N = 3\nprint null or N", "for N in 0..2\n  print N", "f = |N| N\nprint f 1", "f = |N = 2| N\nprint f()",
    "m = {N: 1}\nprint m.N", "m =\n  N: 1\nprint m.N", "match 3\n  N then print N", "match 3\n  N if N > 2 then print N\n  else print 0", "N = |a| a\nprint N 2", "N = 3\nprint (N)", "N = 3\nx = [N, N]\nprint x",
    "N = 3\nprint '{N}'", "f = ||\n  N = 3\n  return N\nprint f()", "N = 'err'\ntry\n  throw N\ncatch e\n  print e", "f = ||\n  N = 3\n  yield N\nprint f().to_list()",
    "try\n  throw 'e'\ncatch N\n  print N", "N = |v| v + 1\nprint (1 -> N)", "export N = 1\nprint N", "let N = 1\nprint N", "N = 3\nN += 1\nprint N", "N = 3\nprint -N", "N = 3\nwhile N < 5\n  N += 1\nprint N",
    "N = 3\nuntil N > 5\n  N += 1\nprint N", "N = 3\nswitch\n  N == 3 then print 1\n  else print 2", "N = 3\nx = switch\n  false then 1\n  else N\nprint x", "N = 3\nx = match 1\n  2 then 0\n  else N\nprint x",
    "N = [1, 2]\nfor v in N\n  print v", "N = 3\nx = loop\n  break N\nprint x", "N, M = 1, 2\nprint N, M", "M, N = 1, 2\nprint N, M", "N = {M: 4}\nprint N.M", "N = [5]\nprint N[0]", "N = 3\nprint N..5",
    "N = 3\nprint 1..N", "N = 3\nprint 1 + N * 2", "N = 3\nprint N\n  + 1", "f = |a, N...| N\nprint f 1, 2", "f = |(a, N)| N\nprint f (1, 2)", "f = |{N}| N\nprint f {N: 5}", "let {N} = {N: 5}\nprint N",
    "match {N: 1}\n  {N} then print N", "match (1, 2)\n  (N, ...) then print N", "N = 3\nassert N\nprint 1" if False else "N = 3\nprint size [N]", "N = 3\nf = || N\nprint f()", "x = 1 # N\nprint x",
]

def _names_shard(shard, n, tier, seed, budget_s):
    """A keyword is only a keyword up to a word boundary: an identifier that begins with (or ends in) a keyword behaves like any other."""
    w = Worker()
    rep = {"violations": [], "evaluations": 0, "distinct": set(), "samples": [], "passenger": [], "names": 0, "templates": len(NAME_TEMPLATES)}
    idx = 0
    base_out = {}
    for ti, tpl in enumerate(NAME_TEMPLATES):
        for kw in KEYWORDS:
            for form in ("%sfy", "%s_x", "%s1", "%sé", "x%s", "_%s" if False else "x_%s", "%s%s"):
                idx += 1
                if idx % n != shard:
                    continue
                name = form % ((kw, kw) if form.count("%s") == 2 else kw)
                if name in KEYWORDS:
                    continue
                if ti not in base_out:
                    r0 = w.exec(tpl.replace("N", "zq").replace("M", "zm"), timeout=20, limit_ms=3000)
                    base_out[ti] = (r0.get("outcome"), r0.get("stdout"))
                src = tpl.replace("N", name).replace("M", "zm")
                r = w.exec(src, timeout=20, limit_ms=3000)
                rep["evaluations"] += 1; rep["names"] += 1
                rep["distinct"].add(sha(src))
                c01._passengers(rep, r, src)
                got = (r.get("outcome"), r.get("stdout"))
                if base_out[ti][0] != "ok":
                    rep["violations"].append({"key": "names-template:%d" % ti, "summary": "harness: the name template does not run: %r" % (base_out[ti],), "case": {"src": tpl}}); break
                if got != base_out[ti]:
                    rep["violations"].append({"key": "names:%d:%s" % (ti, name), "summary": "an identifier beginning or ending with a keyword changes the program: `%s` as %s gives %s (%s), with a plain name %s"
                                              % (tpl.replace("\n", "; "), name, got, (r.get("error") or "")[:80].replace("\n", " "), base_out[ti]), "case": {"src": src, "expected": base_out[ti], "real": got}})
        if len(rep["samples"]) < 1:
            rep["samples"].append({"template": tpl, "names": "iffy if_x if1 ifé xif x_if ifif ... for %d keywords" % len(KEYWORDS)})
    w.close()
    rep["distinct"] = len(rep["distinct"])
    return rep

def run(tier, seed):
    chk = Check(PID, tier, seed)
    if not chk.build():
        return chk.finish({"evaluations": 0, "distinct_nontrivial": 0, "rule": "", "samples": []})
    quick = tier == "quick"
    cov = {"evaluations": 0, "distinct_nontrivial": 0, "samples": [], "streams": {}, "passenger_observations": [], "passenger_src": []}
    only = os.environ.get("KV_STREAMS")
    if not only or "variants" in only:
        c01.fold(chk, cov, "kgen-layout-variants-and-prefixes", fan_out(_variants_shard, tier=tier, seed=seed, budget_s=28 if quick else 600))
    if not only or "corpus" in only:
        c01.fold(chk, cov, "corpus-trivia-and-prefixes", fan_out(_corpus_shard, tier=tier, seed=seed, budget_s=25 if quick else 600))
    if not only or "names" in only:
        c01.fold(chk, cov, "keyword-prefixed-identifiers", fan_out(_names_shard, tier=tier, seed=seed, budget_s=60))
    cov.pop("passenger_observations", None); cov.pop("passenger_src", None)
    cov["freedoms"] = sorted(ALL_FREEDOMS)
    cov["rule"] = ("(a) programs of the kgen profiles core/fn/match/err printed canonically and in %d seeded variants each (variant 0 flips trivia only: blank lines, "
                   "# and #- -# comments on own lines / at line ends / between operands, trailing whitespace, CRLF; the others also redundant parentheses, hex "
                   "spelling, quote kind, paren-free calls in statement position, inline vs block form of if / arms / function bodies, block maps, and one "
                   "broken construct per statement: binary expression after the operator, argument list, list literal, call chain before `.`); behaviour and "
                   "canonical AST compared. (b) trivia variants of corpus programs: AST equality. (c) line prefixes: header lines and dangling = / operators must "
                   "be indentation errors, complete statements never. (d) identifiers that begin or end with each of the 33 keywords in %d templates behave like a plain name. distinct = distinct canonical programs / corpus programs that parse." % (3 if quick else 8, len(NAME_TEMPLATES)))
    return chk.finish(cov, assumptions=["header expressions (conditions, subjects, iterables, guards, function headers), inline if / function / arm bodies and string placeholders stay on one line; at most one broken construct per statement (the parser wants deeper indentation for a second break after a break inside a nested operand)",
                                         "cosmetic AST flags normalised for non-trivia variants: Nested, tuple parentheses, call with_parens, if inline, map braces, string quote",
                                         "derived AST fields (local_count, accessed_non_locals) are not syntax and are excluded"])
