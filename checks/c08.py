"""C08 the execution limit stops runaway scripts.
Monitors over real runs on instances with an execution limit: every non-terminating shape x nesting
x wrapper x limit must (i) return before a generous watchdog, (ii) with a timeout error, (iii)
without any catch block having run, (iv) with a bounded overshoot measured inside the VM at the
timeout events of the observer hook, (v) leaving the VM quiescent and the instance usable; a control
group of terminating generated programs must behave identically with and without a limit."""
import os, random, time
from .common import *
from .modelrun import *
from . import c01
from kv.pool import fan_out
from kvmodel.gen import Gen, GenFn
from kvmodel.printer import Printer, TRACE_PRELUDE

PID = "C08"

def ind(text, n=1):
    return "".join("  " * n + l + "\n" for l in text.rstrip("\n").split("\n"))

SPIN = {  # endless computations driven by bytecode
    "loop": "loop\n  x_ = 1\n",
    "while_true": "while true\n  x_ = 1\n",
    "until_false": "until false\n  x_ = 1\n",
    "for_endless_generator": "ge_ = ||\n  loop\n    yield 1\nfor y_ in ge_()\n  x_ = 1\n",
    "for_repeat": "for y_ in iterator.repeat(1)\n  x_ = 1\n",
    "for_cycle": "for y_ in (1, 2).cycle()\n  x_ = 1\n",
    "recursion": "re_ = |n| re_(n + 1)\nre_(0)\n",
    "method_recursion": "mr_ = {f: |n| self.g(n + 1), g: |n| self.f(n + 1)}\nmr_.f(0)\n",
    "nested_loops": "loop\n  for i_ in 0..1000\n    x_ = i_\n",
    # endless loops whose iterations each do their work inside short nested executions (native callbacks, overloads,
    # calls through core functions): the outer loop itself executes very few instructions
    "loop_of_native_callbacks": "wk_ = |n_|\n  t_ = 0\n  for i_ in 0..n_\n    t_ += i_\n  t_\nloop\n  (1..3).each(|v_| wk_ 20000).consume()\n",
    "loop_of_overloads": "wo_ = {@+: |o_|\n  t_ = 0\n  for i_ in 0..20000\n    t_ += i_\n  t_\n}\nloop\n  q_ = wo_ + 1\n",
    "loop_of_folds": "loop\n  q_ = (0..20000).fold 0, |a_, v_| a_ + v_\n",
    "loop_of_sort_keys": "loop\n  q_ = (0..3000).to_list().sort |v_| 0 - v_\n",
    # an endless loop of individually slow instructions (each `+` copies 400 000 elements): the limit is polled per instruction count
    "loop_of_slow_instructions": "big_ = (0..200000).to_list()\nloop\n  x_ = big_ + big_\n",
    "loop_of_generator_drains": "gd_ = ||\n  for i_ in 0..20000\n    yield i_\nloop\n  q_ = gd_().count()\n",
}
def nest(kind, spin):
    """Wraps the spinning code in a nesting; returns the program text that spins when run."""
    if kind == "top": return spin
    if kind == "function": return "fn_ = ||\n" + ind(spin) + "  0\nfn_()\n"
    if kind == "method": return "ob_ = {m: ||\n" + ind(spin, 2) + "    0\n}\nob_.m()\n" if False else "ob_ =\n  m: ||\n" + ind(spin, 2) + "    0\nob_.m()\n"
    if kind == "native_callback": return "cb_ = |v_|\n" + ind(spin) + "  v_\n[1, 2].each(cb_).consume()\n"
    if kind == "native_fold": return "cb_ = |a_, v_|\n" + ind(spin) + "  a_\n[1, 2].fold 0, cb_\n"
    if kind == "operator_overload": return "pl_ = |rhs_|\n" + ind(spin) + "  0\nov_ = {@+: pl_}\nq_ = ov_ + 1\n"
    if kind == "display": return "di_ = ||\n" + ind(spin) + "  'd'\ndo_ = {@display: di_}\nq_ = '{do_}'\n"
    if kind == "display_in_container": return "di_ = ||\n" + ind(spin) + "  'd'\ndo_ = {@display: di_}\nq_ = '{[do_]}'\n"
    if kind == "display_in_map_print": return "di_ = ||\n" + ind(spin) + "  'd'\ndo_ = {@display: di_}\nprint {k: (1, do_)}\n"
    if kind == "equality_overload_in_list": return "eq_ = |o_|\n" + ind(spin) + "  true\neo_ = {@==: eq_}\nq_ = [eo_] == [1]\n"
    if kind == "sort_key": return "sk_ = |v_|\n" + ind(spin) + "  v_\nq_ = [2, 1].sort sk_\n"
    if kind == "map_update": return "mu_ = |v_|\n" + ind(spin) + "  v_\nq_ = {a: 1}.update 'a', mu_\n"
    if kind == "next_object": return "nx_ = ||\n" + ind(spin) + "  null\nit_ = {@next: nx_}\nfor z_ in it_\n  null\n"
    if kind == "generator_body": return "gb_ = ||\n" + ind(spin) + "  yield 1\nfor z_ in gb_()\n  null\n"
    if kind == "generator_to_list": return "gb_ = ||\n" + ind(spin) + "  yield 1\nq_ = gb_().to_list()\n"
    raise ValueError(kind)
NESTINGS = ["top", "function", "method", "native_callback", "native_fold", "operator_overload", "display", "next_object", "generator_body", "generator_to_list",
            "display_in_container", "display_in_map_print", "equality_overload_in_list", "sort_key", "map_update"]
def wrap(kind, prog):
    if kind == "none": return prog
    if kind == "try_catch": return "try\n" + ind(prog) + "catch e_\n  print 'CAUGHT'\n"
    if kind == "try_catch_in_loop": return "loop\n  try\n" + ind(prog, 2) + "  catch e_\n    print 'CAUGHT'\n"
    if kind == "try_catch_finally": return "try\n" + ind(prog) + "catch e_\n  print 'CAUGHT'\nfinally\n  print 'FINALLY'\n"
    if kind == "nested_try": return "try\n  try\n" + ind(prog, 2) + "  catch e1_: String\n    print 'CAUGHT'\n  catch e2_\n    print 'CAUGHT'\ncatch e3_\n  print 'CAUGHT'\n"
    if kind == "function_with_try": return "wt_ = ||\n  try\n" + ind(prog, 2) + "  catch e_\n    print 'CAUGHT'\n  0\nwt_()\n"
    raise ValueError(kind)
WRAPPERS = ["none", "try_catch", "try_catch_in_loop", "try_catch_finally", "nested_try", "function_with_try"]
PROBE = "print 'probe'\nr_ = try\n  throw 'x'\ncatch e_\n  'ok'\n[r_, [1, 2].each(|v| v + 1).to_tuple(), '{1 + 1}']\n"

def _shard(shard, n, tier, seed, budget_s, profile="release"):
    w = Worker(profile=profile)
    rep = {"violations": [], "evaluations": 0, "distinct": 0, "samples": [], "passenger": [], "cases": 0, "timeouts_observed": 0, "max_overshoot_ms_inside_vm": 0.0, "max_wall_over_limit_ms": 0.0,
           "armed_total": 0, "polled_total": 0, "error_kind_text": {}, "control_programs": 0, "retries": 0}
    limits = [20, 50, 200] if tier == "quick" else [20, 50, 200, 500]
    cases = []
    for sname in sorted(SPIN):
        for nname in NESTINGS:
            for wname in WRAPPERS:
                for L in limits:
                    if "recursion" in sname and L > 200:
                        continue
                    cases.append((sname, nname, wname, L))
    rng = rng_for(seed, "c08", shard)
    mine = [c for i, c in enumerate(cases) if i % n == shard]
    if tier == "quick":
        mine = rng.sample(mine, min(len(mine), 28))
    for (sname, nname, wname, L) in mine:
        src = wrap(wname, nest(nname, SPIN[sname]))
        name = "%s/%s/%s/%dms/%s" % (sname, nname, wname, L, profile)
        bound_ms = max(3 * L, L + 1000)
        watchdog = (20 * L + 10000) / 1000.0
        verdicts = []
        for attempt in range(3):
            try:
                w.call({"op": "inst_new", "inst": "t", "limit_ms": L})
                t0 = time.time()
                r = w.call({"op": "inst_run", "inst": "t", "src": src}, timeout=watchdog)
                wall_ms = (time.time() - t0) * 1000
            except WorkerHang:
                verdicts.append(("non-return", "did not return within the watchdog of %.0f s" % watchdog))
                break          # the worker was restarted; a non-return is not retried (it is the violation)
            except WorkerDied as e:
                if e.kind in ("stack-overflow", "alloc"):
                    verdicts.append(("excluded", e.kind)); break
                verdicts.append(("died", str(e)[:120])); break
            rep["evaluations"] += 1
            out = r.get("outcome")
            vm = r.get("vm") or {}
            rep["armed_total"] += vm.get("armed", 0); rep["polled_total"] += vm.get("polled", 0)
            if out == "panic":
                verdicts.append(("panic", (r.get("panic") or {}).get("signature", "?"))); break
            if not r.get("is_timeout"):
                verdicts.append(("not-a-timeout", "returned %s %s" % (out, (r.get("error") or r.get("result") or "")[:80]))); break
            if "CAUGHT" in (r.get("stdout") or ""):
                verdicts.append(("swallowed", "a catch block ran on the timeout")); break
            fired = vm.get("fired") or []
            over_in = max(fired) * 1000 if fired else 0.0
            rep["max_overshoot_ms_inside_vm"] = max(rep["max_overshoot_ms_inside_vm"], over_in)
            rep["max_wall_over_limit_ms"] = max(rep["max_wall_over_limit_ms"], wall_ms - L)
            # the bound is judged on the time until the host API returned (measured inside the worker); the wall time seen
            # from the driver also contains the worker's rendering of the error, which is not koto's return time
            api_ms = r.get("call_us", wall_ms * 1000.0) / 1000.0
            rep["max_api_return_ms_over_limit"] = max(rep.get("max_api_return_ms_over_limit", 0.0), api_ms - L)
            if L + over_in > bound_ms or api_ms > bound_ms:
                verdicts.append(("overshoot", "fired %.0f ms after the deadline, the API returned after %.0f ms (wall %.0f ms, limit %d ms, bound %d ms)" % (over_in, api_ms, wall_ms, L, bound_ms)))
                rep["retries"] += 1
                time.sleep(0.2)
                continue       # retried: only a verdict when every attempt exceeds the bound
            if r.get("residue"):
                verdicts.append(("residue", "; ".join(r["residue"]))); break
            p = w.call({"op": "inst_run", "inst": "t", "src": PROBE}, timeout=30)
            if p.get("outcome") != "ok" or p.get("result") != "['ok', (2, 3), '2']" or p.get("stdout") != "probe\n":
                verdicts.append(("unusable", "probe after the timeout: %s %r %s" % (p.get("outcome"), p.get("result"), (p.get("error") or "")[:80]))); break
            verdicts = [("held", "")]
            rep["timeouts_observed"] += 1
            kind_text = (r.get("error") or "")[:30]
            rep["error_kind_text"][kind_text] = rep["error_kind_text"].get(kind_text, 0) + 1
            break
        try:
            w.call({"op": "inst_drop", "inst": "t"})
        except (WorkerDied, WorkerHang):
            pass
        rep["cases"] += 1
        rep["distinct"] += 1
        final = verdicts[-1] if verdicts else ("inconclusive", "")
        if final[0] == "overshoot" and len([v for v in verdicts if v[0] == "overshoot"]) < 3:
            final = ("held", "")
        if final[0] not in ("held", "excluded"):
            rep["violations"].append({"key": "limit:%s:%s/%s/%s" % (final[0], sname, nname, wname), "summary": "execution limit %d ms, shape %s: %s - %s" % (L, name, final[0], final[1]), "case": {"src": src, "limit_ms": L, "profile": profile, "verdicts": verdicts}})
        if len(rep["samples"]) < 1 and wname != "none" and nname != "top":
            rep["samples"].append({"shape": name, "program": src})
    # control group: terminating programs behave identically with and without a limit
    i = 0
    t_end = time.time() + (4 if tier == "quick" else 60)
    while time.time() < t_end:
        i += 1
        prng = random.Random((seed * 1000003 + shard) * 1000003 + i)
        g = (Gen if i % 2 else GenFn)(prng, max_depth=3, stmts=prng.randint(2, 8))
        text = Printer().program(g.program(), TRACE_PRELUDE)
        a = w.exec(text, timeout=30, limit_ms=0)
        b = w.exec(text, timeout=30, limit_ms=5000)
        rep["evaluations"] += 2
        rep["control_programs"] += 1
        if c01.canon_view(real_view(a)) != c01.canon_view(real_view(b)):
            rep["violations"].append({"key": "limit-changes-outcome:%s" % sha(text), "summary": "a terminating program behaves differently under a 5 s limit", "case": {"src": text, "no_limit": real_view(a), "limit": real_view(b)}})
    w.close()
    return rep

def run(tier, seed):
    chk = Check(PID, tier, seed)
    quick = tier == "quick"
    if not chk.build():
        return chk.finish({"evaluations": 0, "distinct_nontrivial": 0, "rule": "", "samples": []})
    cov = {"evaluations": 0, "distinct_nontrivial": 0, "samples": [], "streams": {}, "passenger_observations": [], "passenger_src": []}
    # at most 8 workers so that cores stay idle (overshoot is measured)
    c01.fold(chk, cov, "checked-build", fan_out(_shard, n_shards=8, tier=tier, seed=seed, budget_s=0, profile="release"))
    if not quick:
        if chk.build(profile="plain"):
            c01.fold(chk, cov, "plain-build", fan_out(_shard, n_shards=8, tier=tier, seed=seed, budget_s=0, profile="plain"))
    cov.pop("passenger_observations", None); cov.pop("passenger_src", None)
    cov["rule"] = ("%d endless shapes (loop, while, until, for over an endless generator / iterator.repeat / cycle, direct and method recursion, nested loops) x %d nestings (top "
                   "level, function, method, each / fold callback, @+ overload, @display, @next object, generator body consumed by for / to_list) x %d wrappers (none, try/catch, "
                   "try/catch inside an outer loop, try/catch/finally, nested typed catches, function with try) x limits %s ms; %s. Per case: timeout error text at the API "
                   "boundary, no CAUGHT output, overshoot measured at the TimeoutFired event inside the VM (bound max(3L, L + 1 s), three attempts), residue monitor, probe "
                   "script on the same instance; watchdog 20 L + 10 s decides non-return. Control: terminating generated programs with and without a 5 s limit. distinct = "
                   "distinct (shape, nesting, wrapper, limit, build) cases." % (len(SPIN), len(NESTINGS), len(WRAPPERS), "20/50/200" if quick else "20/50/200/500",
                                                                               "a seeded sample of the grid on the checked build" if quick else "the complete grid on the checked and the plain build"))
    return chk.finish(cov, assumptions=["the overshoot bound max(3L, L + 1 s) is the harness' choice, far above the documented polling interval of L/10",
                                         "a timeout is recognised by its message at the API boundary (koto::Error carries no kind)",
                                         "loops that spin entirely inside a native function (iterator.repeat(1).each(f).consume() without bytecode in between) are excluded, as documented"])
