"""Corpus loader: every program the repository itself contains (DESIGN.md 3.3.1), read from /repo
at run time."""
import glob, os, re

REPO = "/repo"

def _doc_blocks(path):
    """```koto blocks of a markdown file; print!/check! placeholders rewritten like the docs README
    describes. Returns (text, runnable) pairs."""
    out = []
    lines = open(path, encoding="utf-8").read().split("\n")
    i = 0
    while i < len(lines):
        m = re.match(r"^```koto(.*)$", lines[i])
        if m and not lines[i].startswith("```kototype"):
            flags = m.group(1)
            i += 1
            body = []
            while i < len(lines) and not lines[i].startswith("```"):
                body.append(lines[i])
                i += 1
            src_lines = []
            for l in body:
                if l.startswith("check!"):
                    continue
                l = re.sub(r"^(\s*)print!\s*", r"\1print ", l)
                src_lines.append(l)
            text = "\n".join(src_lines) + "\n"
            out.append((text, "skip_run" not in flags))
        i += 1
    return out

def _rust_string_literals(path):
    """Tolerant scanner for string literals in Rust test sources."""
    s = open(path, encoding="utf-8").read()
    out = []
    i, n = 0, len(s)
    while i < n:
        c = s[i]
        if s.startswith("//", i):
            j = s.find("\n", i)
            i = n if j < 0 else j
        elif s.startswith("/*", i):
            j = s.find("*/", i)
            i = n if j < 0 else j + 2
        elif c == "r" and re.match(r'r#*"', s[i:i + 8]) and (i == 0 or not (s[i - 1].isalnum() or s[i - 1] == "_")):
            m = re.match(r'r(#*)"', s[i:])
            hashes = m.group(1)
            start = i + len(m.group(0))
            end = s.find('"' + hashes, start)
            if end < 0:
                break
            out.append(s[start:end])
            i = end + 1 + len(hashes)
        elif c == '"':
            j = i + 1
            buf = []
            while j < n and s[j] != '"':
                if s[j] == "\\":
                    e = s[j + 1] if j + 1 < n else ""
                    if e == "n": buf.append("\n"); j += 2
                    elif e == "t": buf.append("\t"); j += 2
                    elif e == "r": buf.append("\r"); j += 2
                    elif e == "0": buf.append("\0"); j += 2
                    elif e == "\\": buf.append("\\"); j += 2
                    elif e == '"': buf.append('"'); j += 2
                    elif e == "'": buf.append("'"); j += 2
                    elif e == "\n":
                        j += 2
                        while j < n and s[j] in " \t\n\r":
                            j += 1
                    elif e == "u":
                        m = re.match(r"\\u\{([0-9a-fA-F_]+)\}", s[j:])
                        if m:
                            try:
                                buf.append(chr(int(m.group(1).replace("_", ""), 16)))
                            except Exception:
                                pass
                            j += len(m.group(0))
                        else:
                            j += 2
                    elif e == "x":
                        try:
                            buf.append(chr(int(s[j + 2:j + 4], 16)))
                        except Exception:
                            pass
                        j += 4
                    else:
                        buf.append(e); j += 2
                else:
                    buf.append(s[j]); j += 1
            out.append("".join(buf))
            i = j + 1
        elif c == "'":
            # char literal or lifetime
            m = re.match(r"'(\\.[^']*|[^'\\])'", s[i:])
            i += len(m.group(0)) if m else 1
        else:
            i += 1
    return out

def load(include_rust_tests=True):
    """Returns a list of dicts {id, src, runnable, kind}. Order is deterministic."""
    progs = []
    seen = set()
    def add(pid, src, runnable, kind):
        if not src.strip():
            return
        if src in seen:
            return
        seen.add(src)
        progs.append({"id": pid, "src": src, "runnable": runnable, "kind": kind})
    for md in sorted(glob.glob(REPO + "/docs/**/*.md", recursive=True) + glob.glob(REPO + "/README.md") + glob.glob(REPO + "/crates/*/README.md")):
        for k, (text, runnable) in enumerate(_doc_blocks(md)):
            add("%s#%d" % (os.path.relpath(md, REPO), k), text, runnable, "doc")
    for pat in ("/koto/tests/**/*.koto", "/koto/benches/*.koto", "/libs/*/tests/*.koto", "/crates/cli/**/*.koto", "/crates/koto/examples/**/*.koto"):
        for f in sorted(glob.glob(REPO + pat, recursive=True)):
            try:
                add(os.path.relpath(f, REPO), open(f, encoding="utf-8").read(), True, "script")
            except Exception:
                pass
    if include_rust_tests:
        for pat in ("/crates/runtime/tests/*.rs", "/crates/parser/tests/*.rs", "/crates/bytecode/tests/*.rs", "/crates/format/tests/*.rs", "/crates/koto/tests/*.rs", "/koto/tests/*.rs", "/crates/format/src/*.rs", "/crates/lexer/src/lexer.rs"):
            for f in sorted(glob.glob(REPO + pat)):
                try:
                    lits = _rust_string_literals(f)
                except Exception:
                    continue
                for k, lit in enumerate(lits):
                    if len(lit) < 3 or len(lit) > 20000:
                        continue
                    add("%s@%d" % (os.path.relpath(f, REPO), k), lit, True, "rstest")
    return progs

# Programs that touch the world outside the runtime are compiled and formatted but not executed
_UNSAFE = re.compile(r"\b(io|os|tempfile|koto\s*\.\s*(load|run)|import\b|random)\b")

def safe_to_run(src):
    return not _UNSAFE.search(src)

if __name__ == "__main__":
    ps = load()
    from collections import Counter
    print(len(ps), Counter(p["kind"] for p in ps), sum(1 for p in ps if p["runnable"] and safe_to_run(p["src"])))
