"""C16 type hints check exactly as documented; disabling them changes nothing else.
(1) Exhaustive grid: hint positions x hint names (with and without `?`) x values of every kind
(incl. objects with @type / @base chains, callable / indexable / iterable objects), each cell run by
the real implementation and compared with a small model of the documented matching rule; match and
catch positions must fall through instead of raising. (2) On/off relation: generated programs of
four kgen profiles carrying (mostly correct, sometimes wrong) hints are run with type checks on -
compared with the reference model - and, when they passed, again with checks off: the two real runs
must be identical. The grid is also run with checks off: let / for / argument / return / yield
positions must then accept everything while match and catch positions keep selecting."""
import os, random, time
from .common import *
from .modelrun import *
from . import c01
from kv.pool import fan_out
from kvmodel.gen import Gen, GenFn, GenMatch, GenErr
from kvmodel.printer import Printer, TRACE_PRELUDE
from kvmodel.interp import Interp

PID = "C16"

PRE = """\
foo = {@type: 'Foo', @display: || 'foo'}
derived = {@base: {@type: 'Base', @display: || 'base'}, @type: 'Derived'}
chain = {@base: {@base: {@type: 'A'}, @type: 'B'}}
untyped = {@display: || 'untyped'}
callme = {@call: || 1}
seq = {@size: || 1, @index: |i| i}
iterme = {@iterator: || (1..2).iter()}
nextme = {@next: || null}
genfn = || yield 1
"""
# value expr -> (own type name, base-chain type names, callable, indexable, iterable, throwable)
VALUES = {
    "null": ("Null", [], False, False, False, False), "true": ("Bool", [], False, False, False, False), "1": ("Number", [], False, False, False, False),
    "1.5": ("Number", [], False, False, False, False), "'a'": ("String", [], False, True, True, True), "[1]": ("List", [], False, True, True, False),
    "(1,)": ("Tuple", [], False, True, True, False), "{a: 1}": ("Map", [], False, True, True, False), "(0..1)": ("Range", [], False, False, True, False),
    "(|x| x)": ("Function", [], True, False, False, False), "genfn": ("Generator", [], False, False, False, False), "(1..2).iter()": ("Iterator", [], False, False, True, False),
    "genfn()": ("Iterator", [], False, False, True, False), "foo": ("Foo", [], False, True, False, True), "derived": ("Derived", ["Base"], False, True, False, False),
    "chain": ("B", ["B", "A"], False, True, False, False), "untyped": ("Object", [], False, True, False, True), "callme": ("Object", [], True, True, False, False),
    "seq": ("Object", [], False, True, False, False), "iterme": ("Object", [], False, True, True, False), "nextme": ("Object", [], False, True, True, False),
    "size": ("Function", [], True, False, False, False),
}
HINTS = ["Any", "Bool", "Number", "String", "List", "Tuple", "Map", "Range", "Function", "Generator", "Iterator", "Null", "Callable", "Indexable", "Iterable",
         "Foo", "Base", "Derived", "A", "B", "Object", "Nope"]

def model_matches(hint, vexpr):
    ty, bases, callable_, indexable, iterable, _ = VALUES[vexpr]
    if hint.endswith("?"):
        if ty == "Null": return True
        hint = hint[:-1]
    if hint == "Any": return True
    if hint == "Callable": return callable_
    if hint == "Indexable": return indexable
    if hint == "Iterable": return iterable
    return hint == ty or hint in bases

POSITIONS = {
    # name -> (template lines using {H} {V}, kind) kind: 'assert' raises on mismatch, 'select' falls through
    "let": (["let x_: {H} = {V}", "'ok'"], "assert"),
    "multi_let": (["let y_: Any, x_: {H} = 0, {V}", "'ok'"], "assert"),
    "multi_let_wildcard": (["xs_ = [1, {V}, 3]", "let a_, _: {H}, c_ = xs_", "if a_ == 1 and c_ == 3 then 'ok' else 'shifted'"], "assert"),
    "multi_let_named_wildcard": (["xs_ = (1, {V}, 3, 4)", "let a_, _w: {H}, c_, d_ = xs_", "if a_ == 1 and c_ == 3 and d_ == 4 then 'ok' else 'shifted'"], "assert"),
    "nested_arg_wildcard": (["f_ = |(a_, _: {H}, c_)| if a_ == 1 and c_ == 3 then 'ok' else 'shifted'", "f_((1, {V}, 3))"], "assert"),
    "for_arg_wildcard": (["r_ = 'none'", "for a_, _: {H}, c_ in ((1, {V}, 3),)", "  r_ = if a_ == 1 and c_ == 3 then 'ok' else 'shifted'", "r_"], "assert"),
    "for_arg": (["for x_: {H} in ({V},)", "  null", "'ok'"], "assert"),
    "fn_arg": (["f_ = |x_: {H}| 'ok'", "f_({V})"], "assert"),
    "fn_arg_default": (["f_ = |y_ = 0, x_: {H} = {V}| 'ok'", "f_()"], "assert"),
    "nested_arg": (["f_ = |(y_, x_: {H})| 'ok'", "f_((0, {V}))"], "assert"),
    "variadic_after": (["f_ = |x_: {H}, rest...| 'ok'", "f_({V}, 1, 2)"], "assert"),
    "return": (["f_ = |v_| -> {H}", "  v_", "f_({V})", "'ok'"], "assert"),
    "return_explicit": (["f_ = |v_| -> {H}", "  return v_", "f_({V})", "'ok'"], "assert"),
    "yield": (["g_ = |v_| -> {H}", "  yield v_", "g_({V}).to_list()", "'ok'"], "assert"),
    # `return` inside a value-producing expression (compiled with a fixed result register)
    "return_in_last_if": (["f_ = |v_| -> {H}", "  if true then return v_ else v_", "f_({V})", "'ok'"], "assert"),
    "return_in_assigned_if": (["f_ = |v_| -> {H}", "  y_ = if true then return v_ else v_", "  y_", "f_({V})", "'ok'"], "assert"),
    "return_in_match_arm": (["f_ = |v_| -> {H}", "  match 1", "    1 then return v_", "    else v_", "f_({V})", "'ok'"], "assert"),
    "return_in_operand": (["f_ = |v_| -> {H}", "  y_ = [1, (if true then return v_ else v_)]", "  v_", "f_({V})", "'ok'"], "assert"),
    "return_in_block_if": (["f_ = |v_| -> {H}", "  y_ = if true", "    return v_", "  else", "    v_", "  y_", "f_({V})", "'ok'"], "assert"),
    # a bare `return` and a body without a value return null: the output hint is checked against null (cells with the value null only)
    "return_bare": (["f_ = |v_| -> {H}", "  return", "f_({V})", "'ok'"], "assert"),
    "return_bare_in_if": (["f_ = |v_| -> {H}", "  if v_ == null", "    return", "  1", "f_({V})", "'ok'"], "assert"),
    "return_bare_in_loop": (["f_ = |v_| -> {H}", "  for i_ in 0..2", "    if i_ == 1", "      return", "  1", "f_({V})", "'ok'"], "assert"),
    "return_implicit_null": (["f_ = |v_| -> {H}", "  if v_ != null then 1", "f_({V})", "'ok'"], "assert"),
    "match_arm": (["match {V}", "  x_: {H} then 'ok'", "  else 'miss'"], "select"),
    "match_ignored": (["match {V}", "  _: {H} then 'ok'", "  else 'miss'"], "select"),
    "match_nested": (["match (0, {V})", "  (_, x_: {H}) then 'ok'", "  else 'miss'"], "select"),
    "catch": (["try", "  throw {V}", "catch e_: {H}", "  'ok'", "catch _", "  'miss'"], "select-throw"),
    # hints on the entries of map patterns: plain key, rebound key, ignored rebound key, string key
    "map_let": (["let {k_: {H}, j_} = {k_: {V}, j_: 3}", "if j_ == 3 then 'ok' else 'shifted'"], "assert"),
    "map_let_rebind": (["let {j_, k_ as x_: {H}} = {k_: {V}, j_: 3}", "if j_ == 3 then 'ok' else 'shifted'"], "assert"),
    "map_let_ignored": (["let {k_ as _: {H}, j_} = {k_: {V}, j_: 3}", "if j_ == 3 then 'ok' else 'shifted'"], "assert"),
    "map_let_named_ignored": (["let {'k_' as _w: {H}, j_} = {k_: {V}, j_: 3}", "if j_ == 3 then 'ok' else 'shifted'"], "assert"),
    "map_for": (["r_ = 'none'", "for {k_ as x_: {H}, j_} in [{k_: {V}, j_: 3}]", "  r_ = if j_ == 3 then 'ok' else 'shifted'", "r_"], "assert"),
    "map_for_ignored": (["r_ = 'none'", "for {j_, k_ as _: {H}} in [{k_: {V}, j_: 3}]", "  r_ = if j_ == 3 then 'ok' else 'shifted'", "r_"], "assert"),
    "map_arg": (["f_ = |{k_: {H}, j_}| if j_ == 3 then 'ok' else 'shifted'", "f_({k_: {V}, j_: 3})"], "assert"),
    "map_arg_rebind": (["f_ = |y_, {k_ as x_: {H}, j_}| if j_ == 3 then 'ok' else 'shifted'", "f_(0, {k_: {V}, j_: 3})"], "assert"),
    "map_arg_ignored": (["f_ = |{k_ as _: {H}, j_}| if j_ == 3 then 'ok' else 'shifted'", "f_({k_: {V}, j_: 3})"], "assert"),
    "match_map": (["match {k_: {V}, j_: 3}", "  {k_: {H}, j_} then (if j_ == 3 then 'ok' else 'shifted')", "  else 'miss'"], "select"),
    "match_map_rebind": (["match {k_: {V}, j_: 3}", "  {k_ as x_: {H}, j_} then (if j_ == 3 then 'ok' else 'shifted')", "  else 'miss'"], "select"),
    "match_map_ignored": (["match {k_: {V}, j_: 3}", "  {j_, k_ as _: {H}} then (if j_ == 3 then 'ok' else 'shifted')", "  else 'miss'"], "select"),
}

def _grid_shard(shard, n, tier, seed, budget_s):
    w = Worker()
    rep = {"violations": [], "evaluations": 0, "distinct": 0, "samples": [], "passenger": [], "cells": 0, "cells_checks_off": 0, "raised": 0, "fell_through": 0}
    cells = []
    for pos, (tmpl, kind) in sorted(POSITIONS.items()):
        for h in HINTS:
            for q in ("", "?"):
                for v in sorted(VALUES):
                    if kind == "select-throw" and not VALUES[v][5]:
                        continue
                    if (pos.startswith("return_bare") or pos == "return_implicit_null") and v != "null":
                        continue
                    cells.append((pos, tmpl, kind, h + q, v))
    mine = [c for i, c in enumerate(cells) if i % n == shard]
    for checks in (True, False):
        for b0 in range(0, len(mine), 50):
            batch = mine[b0:b0 + 50]
            src = PRE
            want = []
            for k, (pos, tmpl, kind, h, v) in enumerate(batch):
                body = [l.replace("{H}", h).replace("{V}", v) for l in tmpl]
                src += "r%d = try\n" % k + "".join("  " + l + "\n" for l in body) + "catch _\n  '#E'\nprint('%d', r%d)\n" % (k, k)
                ok = model_matches(h, v)
                if kind == "assert":
                    exp = "ok" if (ok or not checks) else "#E"
                else:
                    exp = "ok" if ok else "miss"
                want.append("('%d', '%s')" % (k, exp))
            r = w.exec(src, timeout=30, limit_ms=10000, type_checks=checks)
            rep["evaluations"] += 1
            c01._passengers(rep, r, src)
            got = r.get("stdout", "").split("\n")[:-1] if r.get("outcome") == "ok" else None
            if got is None or len(got) != len(want):
                rep["violations"].append({"key": "grid-batch:%s" % sha(src), "summary": "hint grid batch did not complete: %s %s" % (r.get("outcome"), (r.get("error") or "")[:100]), "case": {"src": src, "real": real_view(r)}})
                continue
            for (pos, tmpl, kind, h, v), wl, gl in zip(batch, want, got):
                if checks: rep["cells"] += 1
                else: rep["cells_checks_off"] += 1
                rep["distinct"] += 1
                if "#E" in wl: rep["raised"] += 1
                if "miss" in wl: rep["fell_through"] += 1
                if wl != gl:
                    body = "\n".join(l.replace("{H}", h).replace("{V}", v) for l in tmpl)
                    rep["violations"].append({"key": "grid:%s:%s:%s:%s" % (pos, h, v, "on" if checks else "off"), "summary": "hint `%s` at position %s with value %s (checks %s): expected %s, got %s" % (
                        h, pos, v, "on" if checks else "off", wl.split(", ")[1].rstrip(")"), gl.split(", ", 1)[1].rstrip(")") if ", " in gl else gl), "case": {"src": PRE + body + "\n", "type_checks": checks, "expected": wl, "real": gl}})
            if len(rep["samples"]) < 1:
                rep["samples"].append({"cell": "\n".join(l.replace("{H}", batch[0][3]).replace("{V}", batch[0][4]) for l in batch[0][1]), "expected": want[0]})
    w.close()
    return rep

def _relation_shard(shard, n, tier, seed, budget_s):
    w = Worker()
    t_end = time.time() + budget_s
    rep = {"violations": [], "evaluations": 0, "distinct": set(), "samples": [], "passenger": [], "programs": 0, "passed_with_checks_on": 0, "failed_a_hint": 0, "hints_in_programs": 0, "model_limit": 0}
    i = 0
    profiles = [Gen, GenFn, GenMatch, GenErr]
    while time.time() < t_end:
        i += 1
        rng = random.Random((seed * 1000003 + shard) * 1000003 + i)
        g = profiles[i % 4](rng, max_depth=rng.choice([2, 3, 3, 4]), stmts=rng.randint(2, 9), features={"hints"})
        prog = g.program()
        text = Printer().program(prog, TRACE_PRELUDE)
        rep["programs"] += 1
        rep["hints_in_programs"] += text.count("let ")
        m = model_outcome(prog)
        r_on = w.exec(text, timeout=20, limit_ms=4000, type_checks=True)
        rep["evaluations"] += 1
        if m["kind"] == "limit":
            rep["model_limit"] += 1
        else:
            why = agrees(m, r_on)
            if why:
                rep["violations"].append({"key": "model:%s" % sha(text), "summary": "model vs real with type checks on: %s" % why, "case": {"src": text, "model": {"kind": m["kind"], "value": m.get("value"), "tag": m.get("tag"), "out": m["out"][-30:]}, "real": real_view(r_on)}})
                continue
            if m["kind"] == "error" and m.get("tag") == "hint":
                rep["failed_a_hint"] += 1
        if r_on.get("outcome") != "ok":
            continue
        if m["kind"] == "limit" or m.get("hint_failures", 0) > 0:
            # a type check failed and a try block caught it (or the model cannot tell): the run with checks off legitimately differs
            rep["hint_failure_caught_or_unknown"] = rep.get("hint_failure_caught_or_unknown", 0) + 1
            continue
        rep["passed_with_checks_on"] += 1
        r_off = w.exec(text, timeout=20, limit_ms=4000, type_checks=False)
        rep["evaluations"] += 1
        if c01.canon_view(real_view(r_on)) != c01.canon_view(real_view(r_off)):
            rep["violations"].append({"key": "onoff:%s" % sha(text), "summary": "a program that passes with type checks on behaves differently with checks off: %s vs %s" % (
                str(c01.canon_view(real_view(r_on)))[:100], str(c01.canon_view(real_view(r_off)))[:100]), "case": {"src": text, "on": real_view(r_on), "off": real_view(r_off)}})
        rep["distinct"].add(sha(text))
        if len(rep["samples"]) < 1 and text.count("let ") >= 2:
            rep["samples"].append({"program": text[:500]})
    w.close()
    rep["distinct"] = len(rep["distinct"])
    return rep

def run(tier, seed):
    chk = Check(PID, tier, seed)
    if not chk.build():
        return chk.finish({"evaluations": 0, "distinct_nontrivial": 0, "rule": "", "samples": []})
    quick = tier == "quick"
    cov = {"evaluations": 0, "distinct_nontrivial": 0, "samples": [], "streams": {}, "passenger_observations": [], "passenger_src": []}
    c01.fold(chk, cov, "hint-grid", fan_out(_grid_shard, tier=tier, seed=seed, budget_s=300))
    c01.fold(chk, cov, "on-off-relation", fan_out(_relation_shard, tier=tier, seed=seed, budget_s=20 if quick else 420))
    cov.pop("passenger_observations", None); cov.pop("passenger_src", None)
    cov["exhaustive"] = True
    cov["rule"] = ("grid (complete): %d positions (let, multi-let, for argument, function argument, defaulted argument, nested unpacked argument, argument before a variadic, "
                   "implicit / explicit return, generator yield, match arm id / wildcard / nested, typed catch) x %d hint names x {plain, ?} x %d values (every primitive kind, "
                   "function, generator function, iterators, objects with @type, @base chains of depth 1-2, untyped / callable / indexable / iterable objects, a native "
                   "function), each cell with type checks on and off; relation: generated programs with hints on let / for / function arguments, a few of them wrong. "
                   "distinct = grid cells + distinct programs that passed with checks on." % (len(POSITIONS), len(HINTS), len(VALUES)))
    return chk.finish(cov, assumptions=["matching rule modelled from the guide and pinned for the guide-silent points (a generator function is Generator and not Callable; a map with a metamap but no @type is Object; a map with a metamap is Iterable only with @iterator/@next; every map is Indexable)"])
