#!/usr/bin/env python3
"""Validates MANIFEST.json and evidence files against the schemas (uses the tooling venv's jsonschema)."""
import json, sys, glob, os
import jsonschema
ok = True
def check(path, schema_path):
    global ok
    try:
        jsonschema.validate(json.load(open(path)), json.load(open(schema_path)))
        print("valid  ", path)
    except Exception as e:
        ok = False
        print("INVALID", path, str(e)[:300])
if os.path.exists("/verif/MANIFEST.json"):
    check("/verif/MANIFEST.json", "/root/.vp/MANIFEST.schema.json")
for f in sorted(glob.glob("/verif/evidence/*.json")):
    check(f, "/root/.vp/EVIDENCE.schema.json")
sys.exit(0 if ok else 1)
