"""C12 diagnostics identify the right source location.
Monitors over real executions of programs with a fault planted at a printer-known line: (a) the
trace of an uncaught runtime error, mapped through the chunk's debug info, must list the line of
the failing expression and then the line of each enclosing call site, innermost first (modulo
consecutive repeats); the rendered message must quote exactly those source lines; (b) a planted bad
token line must yield a compile error whose span lies inside the text on that line and whose
excerpt quotes it; (c) `debug` output must be prefixed with the line on which the debug expression
starts."""
import os, random, re, time
from .common import *
from .modelrun import *
from . import c01
from kv.pool import fan_out
from kvmodel.gen import Gen, Scope
from kvmodel.printer import Printer, ALL_FREEDOMS

PID = "C12"

FAULTS = [
    ("throw", ["throw 'boom'"], 0),
    ("index", ["q_ = [1][9]"], 0),
    ("type", ["q_ = 1 + null"], 0),
    ("assert", ["assert false"], 0),
    ("args", ["q_ = h_few(1)"], 0),
    ("hint", ["let q_: String = 1"], 0),
    ("access", ["n_ = null", "q_ = n_.foo"], 1),
    ("multiline", ["q_ = [", "  1,", "  1 + null,", "]"], (0, 3)),
    ("interp", ["q_ = 'a{1 + null}b'"], 0),
    ("compare", ["q_ = 1 < 'a'"], 0),
]
# call forms: (lines with {f} placeholder, index of the line that holds the call, extra frames)
CALLS = [
    (["{f}()"], 0), (["c_ = {f}()"], 0), (["c_ = [1, {f}(), 3]"], 0), (["c_ = 1 + {f}()"], 0), (["c_ = [1].each(|_x| {f}()).to_list()"], 0),
    (["c_ = 'a{{{f}()}}b'"], 0), (["if true", "  {f}()"], 1), (["c_ =", "  {f}()"], 1), (["c_ = [", "  1,", "  {f}(),", "]"], 2),
    (["c_ = 5 -> {f}"], 0), (["c_ = ({f}(), 2)"], 0), (["print({f}())"], 0), (["c_ = {{k: {f}()}}"], 0), (["c_ = [0, 1].keep(|_x| {f}() == 0).to_tuple()"], 0),
    (["while true", "  {f}()", "  break"], 1), (["for _i in 0..1", "  {f}()"], 1), (["c_ = if true then {f}() else 0"], 0),
    (["c_ = match 1", "  1 then {f}()", "  else 0"], 1), (["try", "  {f}()", "catch _e", "  throw _e"], None),
]

def filler(rng, ind, sc=None, n=None):
    g = Gen(rng, max_depth=2, stmts=3)
    sc = Scope()
    sc.vars["size"] = None
    del sc.vars["size"]
    stmts = []
    for _ in range(n if n is not None else rng.randint(0, 3)):
        stmts += g.stmt(sc, 1)
    if not stmts:
        return []
    p = Printer(rng, ALL_FREEDOMS)
    p.block(stmts, ind)
    return p.lines

def build_runtime_case(rng):
    lines = []
    def add(ls, ind):
        first = len(lines)
        for l in ls:
            lines.append("  " * ind + l if l.strip() else l)
        return first
    add(["t = |k, v|", "  v", "h_few = |a, b| a"], 0)
    add(filler(rng, 0), 0)
    depth = rng.randint(0, 4)
    kind, fault_lines, fault_rel = rng.choice(FAULTS)
    expected = []          # list of (lo, hi) 1-based line ranges, innermost first
    names = ["fz%d" % i for i in range(depth)]
    # innermost function (or top level when depth == 0) holds the fault
    def body_with(ind, stmt_lines, rel):
        add(filler(rng, ind), 0)
        first = add(stmt_lines, ind)
        if isinstance(rel, tuple):
            rng_ = (first + rel[0] + 1, first + rel[1] + 1)
        else:
            rng_ = (first + rel + 1, first + rel + 1)
        add(filler(rng, ind, n=rng.randint(0, 1)), 0)
        return rng_
    if rng.random() < 0.08:
        # direct self recursion, no native frames involved: the call-site line appears once per level, exactly
        k = rng.randint(1, 6)
        add(["rz = |n_|"], 0)
        add(filler(rng, 1, n=rng.randint(0, 1)), 0)
        add(["if n_ == 0"], 1)
        f_at = add(["q_ = 1 + null"], 2)
        c_at = add(["r_ = rz(n_ - 1)"], 1)
        add(["r_"], 1)
        add(filler(rng, 0), 0)
        t_at = add(["c_ = rz(%d)" % k], 0)
        add(filler(rng, 0, n=rng.randint(0, 1)), 0)
        exact = [f_at + 1] + [c_at + 1] * k + [t_at + 1]
        return "\n".join(lines) + "\n", [(x, x) for x in exact], "recursion_exact"
    if rng.random() < 0.2:
        # the fault sits in a generator body right after a yield, its operands are already in registers:
        # the first instruction executed after the resume is the failing one
        gkind, glines = rng.choice([("gen_add", ["c_ = a_ + b_"]), ("gen_access", ["q_ = b_.foo"]), ("gen_index", ["q_ = a_[b_]"]), ("gen_compare", ["q_ = a_ < b_"]), ("gen_call", ["q_ = b_()"])])
        add(["gz = |a_, b_|"], 0)
        add(filler(rng, 1, n=rng.randint(0, 1)), 0)
        for _ in range(rng.randint(1, 2)):
            add(["yield a_"], 1)
        first = add(glines, 1)
        expected.append((first + 1, first + 1))
        add(["yield 0"], 1)
        add(filler(rng, 0), 0)
        form = rng.choice([["for _v in gz(1, null)", "  null"], ["c_ = gz(1, null).to_list()"], ["c_ = gz(1, null).each(|x_| x_).to_tuple()"], ["it_ = gz(1, null)", "it_.next()", "it_.next()", "it_.next()"]])
        at = add(form, 0)
        if len(form) == 4:
            # manual iteration: the failing resume is the second or third next()
            expected.append((at + 3, at + 4))
        else:
            expected.append((at + 1, at + 1))
        add(filler(rng, 0, n=rng.randint(0, 1)), 0)
        return "\n".join(lines) + "\n", expected, gkind
    if depth == 0:
        expected.append(body_with(0, fault_lines, fault_rel))
    else:
        add(["%s = |_a = 0|" % names[-1]], 0)
        expected.append(body_with(1, fault_lines, fault_rel))
        add(["0"], 1)
        for i in range(depth - 2, -1, -1):
            form, rel = rng.choice([c for c in CALLS if c[1] is not None])
            add(["%s = |_a = 0|" % names[i]], 0)
            expected.append(body_with(1, [l.format(f=names[i + 1]) for l in form], rel))
            add(["0"], 1)
        form, rel = rng.choice([c for c in CALLS if c[1] is not None])
        expected.append(body_with(0, [l.format(f=names[0]) for l in form], rel))
    return "\n".join(lines) + "\n", expected, kind

_EXCERPT = re.compile(r"^\s*(\d+) \| (.*)$")
_HEADER = re.compile(r"^--- (?:.* - )?(\d+):(\d+)$")

def check_rendered(src, rendered):
    """Every quoted excerpt line ` N | text` must equal source line N; every `--- L:C` header must lie inside the text."""
    src_lines = src.split("\n")
    problems = []
    for l in rendered.split("\n"):
        m = _EXCERPT.match(l)
        if m:
            n = int(m.group(1))
            if n < 1 or n > len(src_lines) or src_lines[n - 1].rstrip() != m.group(2).rstrip():
                problems.append("excerpt line %d quotes %r, the source line is %r" % (n, m.group(2)[:60], (src_lines[n - 1] if 1 <= n <= len(src_lines) else "<outside>")[:60]))
        m = _HEADER.match(l)
        if m:
            n = int(m.group(1))
            if n < 1 or n > len(src_lines):
                problems.append("position %s lies outside the %d-line text" % (l, len(src_lines)))
    return problems

def merged(seq):
    out = []
    for x in seq:
        if not out or out[-1] != x:
            out.append(x)
    return out

def judge_trace(src, expected, r):
    if r.get("outcome") != "runtime_error":
        return "expected an uncaught runtime error, got %s" % r.get("outcome")
    frames = r.get("frames") or []
    if any(f.get("missing_span") for f in frames):
        return "a trace frame has no source span"
    got = merged([f["start_line"] + 1 for f in frames])
    # expected ranges, merging consecutive equal ranges
    exp = merged(expected)
    # match: got must have the same length as exp and each line must lie in its range - a frame list may repeat a line
    # consecutively (native adaptor frames), which `merged` has collapsed; ranges that overlap their neighbour's single line may merge too
    def fits(gs, es):
        if not gs and not es: return True
        if not gs or not es: return False
        lo, hi = es[0]
        if lo <= gs[0] <= hi:
            if fits(gs[1:], es[1:]): return True
            # the same reported line can also cover the next expected entry when that one contains it (merged repeats)
            if len(es) > 1 and es[1][0] <= gs[0] <= es[1][1] and fits(gs, es[1:]): return True
        return False
    if not fits(got, exp):
        return "trace lines %s, expected %s" % (got, [a if a == b else (a, b) for a, b in exp])
    return None

BAD_LINES = [("x_bad = = 1", "="), (")", ")"), ("then 1", "then"), ("y_bad = 1 +* 2", "*"), ("z_bad = (1, 2))", ")"), ("w_bad = [1, 2]]", "]"), ("v_bad = 1 2", "2"),
             ("else", "else"), ("catch e", "catch"), ("t_bad = 1 +", None), ("s_bad = }", "}"),
             # unclosed constructs: the offending token is the first token of the following line
             ("u_bad = h_few(10, 2", "NEXT"), ("u_bad = h_few(1, [2, 3]", "NEXT"), ("u_bad = [1, 2", "NEXT"), ("u_bad = (1, 2", "NEXT"), ("u_bad = {a: 1", "NEXT"),
             ("u_bad = 1.max(2", "NEXT"), ("u_bad = 'a'.to_uppercase(", "NEXT")]

def _shard(shard, n, tier, seed, budget_s):
    w = Worker()
    t_end = time.time() + budget_s
    rep = {"violations": [], "evaluations": 0, "distinct": set(), "samples": [], "passenger": [], "runtime_cases": 0, "compile_cases": 0, "debug_cases": 0, "frames_checked": 0,
           "excerpts_checked": 0, "fault_kinds": {}, "depths": {}}
    i = 0
    while time.time() < t_end:
        i += 1
        rng = random.Random((seed * 1000003 + shard) * 1000003 + i)
        mode = i % 4
        if mode in (0, 1):
            src, expected, kind = build_runtime_case(rng)
            r = w.call({"op": "exec_trace", "src": src, "limit_ms": 3000}, timeout=20) if True else None
            rep["evaluations"] += 1
            rep["runtime_cases"] += 1
            rep["fault_kinds"][kind] = rep["fault_kinds"].get(kind, 0) + 1
            rep["depths"][str(len(expected) - 1)] = rep["depths"].get(str(len(expected) - 1), 0) + 1
            if r.get("outcome") == "panic":
                rep["violations"].append({"key": "panic:" + r["panic"]["signature"], "summary": "panic while running / rendering a planted fault: " + r["panic"]["message"][:80], "case": {"src": src, "panic": r["panic"]}})
                continue
            why = judge_trace(src, expected, r)
            if not why and kind == "recursion_exact":
                got_exact = [f["start_line"] + 1 for f in (r.get("frames") or [])]
                if got_exact != [a for a, _ in expected]:
                    why = "the trace of a direct recursion lists lines %s, expected exactly %s (one frame per level)" % (got_exact, [a for a, _ in expected])
            if why:
                rep["violations"].append({"key": "trace:%s" % sha(src), "summary": "runtime trace (%s, depth %d): %s" % (kind, len(expected) - 1, why), "case": {"src": src, "expected": expected, "frames": r.get("frames"), "rendered": r.get("rendered")}})
                continue
            rep["frames_checked"] += len(r.get("frames") or [])
            probs = check_rendered(src, r.get("rendered") or "")
            rep["excerpts_checked"] += (r.get("rendered") or "").count(" | ")
            if probs:
                rep["violations"].append({"key": "excerpt:%s" % sha(src), "summary": "rendered runtime error: " + probs[0], "case": {"src": src, "rendered": r.get("rendered")}})
            rep["distinct"].add(sha(src))
            if len(rep["samples"]) < 1 and len(expected) >= 3:
                rep["samples"].append({"program": src[:700], "expected_lines": expected, "reported": [f["start_line"] + 1 for f in r["frames"]]})
        elif mode == 2:
            # compile faults: a valid program with one planted bad line at a top-level statement boundary
            lines = ["t = |k, v|", "  v", "a_ok = 1"] + filler(rng, 0, n=rng.randint(1, 4)) + ["b_ok = 2"] + filler(rng, 0, n=rng.randint(0, 3)) + ["c_ok = 3"]
            # boundaries: before a line with indentation 0 that does not continue a block (else / catch / finally) or a statement
            cands = [k for k in range(1, len(lines)) if lines[k] and not lines[k].startswith(" ") and not lines[k].startswith("#") and lines[k].split(" ")[0] not in ("else", "catch", "finally", ")", "]", "}")
                     and not lines[k - 1].rstrip().endswith(("=", "+", "-", "*", "/", ",", "(", "[", "and", "or")) and lines[k][0] not in ")]}"]
            if not cands:
                continue
            at = rng.choice(cands)
            bad, tok = rng.choice(BAD_LINES)
            if tok is None and at != len(lines):
                # a dangling operator is only a fault of its own line at the very end of the text
                lines2 = lines + [bad]; at = len(lines)
            else:
                lines2 = lines[:at] + [bad] + lines[at:]
            src = "\n".join(lines2) + "\n"
            r = w.call({"op": "exec_trace", "src": src}, timeout=20)
            rep["evaluations"] += 1
            rep["compile_cases"] += 1
            if r.get("outcome") == "panic":
                rep["violations"].append({"key": "panic:" + r["panic"]["signature"], "summary": "panic while compiling / rendering a planted bad line: " + r["panic"]["message"][:80], "case": {"src": src, "panic": r["panic"]}})
                continue
            if r.get("outcome") != "compile_error" or "span" not in r:
                rep["violations"].append({"key": "compile-accepted:%s" % bad, "summary": "the planted bad line `%s` did not produce a compile error with a position (%s)" % (bad, r.get("outcome")), "case": {"src": src, "response": r}})
                continue
            sl, sc, el, ec = r["span"]
            n_lines = len(src.split("\n"))
            problems = []
            if not (0 <= sl < n_lines and 0 <= el < n_lines and sc <= len(lines2[sl]) + 1 and (el >= len(lines2) or ec <= len(lines2[el]) + 1)):
                problems.append("span %s lies outside the text" % r["span"])
            elif sl != (at + 1 if tok == "NEXT" else at):
                problems.append("span starts on line %d, the bad token is on line %d" % (sl + 1, (at + 1 if tok == "NEXT" else at) + 1))
            problems += check_rendered(src, r.get("error") or "")
            if problems:
                rep["violations"].append({"key": "compile-span:%s:%s" % (bad, sha(src)), "summary": "compile error for the planted line `%s`: %s" % (bad, problems[0]), "case": {"src": src, "planted_line": at + 1, "span": r["span"], "error": r.get("error")}})
            rep["distinct"].add(sha(src))
        else:
            # debug at statement positions, incl. multi-line expressions
            lines = ["t = |k, v|", "  v"] + filler(rng, 0, n=rng.randint(0, 3))
            exp = []
            for k in range(rng.randint(1, 3)):
                form = rng.random()
                if form < 0.5:
                    exp.append((len(lines) + 1, "1 + %d" % k)); lines.append("debug 1 + %d" % k)
                elif form < 0.75:
                    exp.append((len(lines) + 1, None)); lines += ["debug [", "  1,", "  %d," % k, "]"]
                elif form < 0.85:
                    # debug of a local right after a yield (first instruction after the resume)
                    lines.append("g_dbg%d = |a_|" % k); lines += filler(rng, 1, n=rng.randint(0, 1)); lines.append("  yield a_")
                    exp.append((len(lines) + 1, "a_")); lines.append("  debug a_"); lines.append("  yield a_"); lines.append("c_%d = g_dbg%d(%d).to_list()" % (k, k, k))
                else:
                    lines.append("f_dbg%d = ||" % k); lines += filler(rng, 1, n=rng.randint(0, 2))
                    exp.append((len(lines) + 1, "(2, %d)" % k)); lines.append("  debug (2, %d)" % k); lines.append("  0"); lines.append("f_dbg%d()" % k)
                lines += filler(rng, 0, n=rng.randint(0, 2))
            src = "\n".join(lines) + "\n"
            r = w.exec(src, timeout=20, limit_ms=3000)
            rep["evaluations"] += 1
            rep["debug_cases"] += 1
            if r.get("outcome") != "ok":
                continue
            got = [int(m.group(1)) for m in re.finditer(r"^\[(\d+)\] ", r.get("stdout", ""), re.M)]
            want = [e[0] for e in exp]
            if got != want:
                rep["violations"].append({"key": "debug-line:%s" % sha(src), "summary": "debug prefixes %s, the debug expressions start on lines %s" % (got, want), "case": {"src": src, "stdout": r.get("stdout")}})
            rep["distinct"].add(sha(src))
    w.close()
    rep["distinct"] = len(rep["distinct"])
    return rep

def run(tier, seed):
    chk = Check(PID, tier, seed)
    if not chk.build():
        return chk.finish({"evaluations": 0, "distinct_nontrivial": 0, "rule": "", "samples": []})
    quick = tier == "quick"
    cov = {"evaluations": 0, "distinct_nontrivial": 0, "samples": [], "streams": {}, "passenger_observations": [], "passenger_src": []}
    shards = fan_out(_shard, tier=tier, seed=seed, budget_s=25 if quick else 480)
    c01.fold(chk, cov, "planted-faults", shards)
    kinds, depths = {}, {}
    for s in shards:
        for k, v in (s.get("fault_kinds") or {}).items(): kinds[k] = kinds.get(k, 0) + v
        for k, v in (s.get("depths") or {}).items(): depths[k] = depths.get(k, 0) + v
    cov["fault_kinds"], cov["call_depths"] = kinds, depths
    cov.pop("passenger_observations", None); cov.pop("passenger_src", None)
    cov["rule"] = ("(a) runtime faults of %d kinds planted after random filler statements (kgen core statements in randomised multi-line layouts) at call depth 0-4, the "
                   "call sites drawn from %d forms (statement, assignment, list / tuple / map element, operand, each / keep callback, interpolation, if / while / for / "
                   "match bodies, inline if, continuation line, multi-line list, pipe); expected line list = fault line then call-site lines innermost first, compared "
                   "modulo consecutive repeats; every ` N | text` excerpt of the rendered message is compared with source line N. (b) %d kinds of bad token lines planted "
                   "at top-level statement boundaries: compile error expected, span inside the text and starting on the planted line, excerpt quoting it. (c) debug "
                   "statements (single- and multi-line expressions, top level and inside functions): prefix line = first line of the expression. distinct = distinct "
                   "program texts." % (len(FAULTS), len(CALLS) - 1, len(BAD_LINES)))
    return chk.finish(cov, assumptions=["line numbers come from the harness' own line bookkeeping while assembling the text", "consecutive frames reporting the same line are merged (a call through a native adaptor contributes extra frames on the same line)"])
