#!/usr/bin/env python3
"""Runs one Koto source (stdin or argv[1]) on the rc worker and prints the response (ad-hoc probing)."""
import sys, json, os
sys.path.insert(0, os.path.dirname(os.path.dirname(os.path.abspath(__file__))))
from kv.worker import Worker
src = open(sys.argv[1]).read() if len(sys.argv) > 1 else sys.stdin.read()
w = Worker()
r = w.exec(src, timeout=20, limit_ms=int(os.environ.get("LIMIT_MS", "3000")))
for k in ("outcome", "stdout", "result", "error", "panic", "call_us"):
    if k in r: print(k + ":", json.dumps(r[k])[:1500])
w.close()
