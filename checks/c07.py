"""C07 a failed run leaves the runtime reusable and clean.
Histories x fault enumeration on one `Koto` instance: scripts that succeed or fail at a planted
depth, host-initiated calls of exported and native functions with good and bad arguments, value
displays that throw, compile errors, timeouts. Oracles: (1) residue monitor at the VM state hook
after every host call (the state must equal the quiescent state calibrated on this build); (2) at
the end the used instance and a fresh reference instance that performed only the completed effects
must show the same exports and answer a probe battery identically."""
import os, random, time
from .common import *
from .modelrun import *
from . import c01
from kv.pool import fan_out

PID = "C07"

INIT = """\
export shared = []
export f_add = |a, b| a + b
export f_push = |v|
  shared.push v
  size shared
export f_fail = |n| if n <= 0 then throw 'deep' else f_fail(n - 1)
export f_unpack = |(a, b)| a + b
export good_disp = {@display: || 'fine'}
export bad_disp = {@display: || throw 'display failed'}
'init'
"""
PROBE = """\
print shared
print 'interp {1 + 2} {[1, (2, 3)]} {{a: 1}}'
r = try
  throw 'x'
catch e
  'caught {e}'
print r
g = ||
  yield 1
  yield 2
print g().to_list()
o = {@+: |rhs| 10 + rhs, @display: || 'obj'}
print o + 5, '{o}'
deep = |n| if n == 0 then 0 else 1 + deep(n - 1)
print deep(40)
print [1, 2, 3].each(|x| x * 2).fold(0, |a, x| a + x)
print f_add(2, 3), f_push('probe')
m = {}
for i in 0..20
  m.insert i, [i, (i, '{i}')]
print size(m), m.get(7)
'probe done'
"""
FAULTS = {
    "throw_nested": "f_fail(3)",
    "native_callback": "q = [1, 2, 3].each(|x| if x == 2 then throw 'in each' else x).to_list()",
    "native_fold": "q = [1, 2, 3].fold 0, |a, x| if x == 3 then throw 'in fold' else a + x",
    "generator": "g = ||\n  yield 1\n  throw 'in generator'\nfor y in g()\n  null",
    "generator_to_list": "g = ||\n  yield 1\n  throw 'in generator'\nq = g().to_list()",
    "operator_overload": "o = {@+: |rhs| throw 'in plus'}\nq = o + 1",
    "comparison_overload": "o = {@<: |rhs| throw 'in less'}\nq = o < 1",
    "derived_not_equal": "o = {@==: |rhs| throw 'in equal'}\nq = o != 1",
    "derived_greater_or_equal": "o = {@<: |rhs| throw 'in less'}\nq = o >= 1",
    "derived_less_or_equal": "o = {@<: (|rhs| false), @==: |rhs| throw 'in equal'}\nq = o <= 1",
    "derived_greater": "o = {@<: (|rhs| throw 'in less'), @==: |rhs| true}\nq = o > 1",
    "negate_overload": "o = {@negate: || throw 'in negate'}\nq = -o",
    "compound_overload": "o = {@+=: |rhs| throw 'in add assign'}\no += 1",
    "rhs_overload": "o = {@r+: |lhs| throw 'in radd'}\nq = 1 + o",
    "unimplemented_then_rhs": "a = {@+: |rhs| throw koto.unimplemented}\nb = {@r+: |lhs| throw 'in radd'}\nq = a + b",
    "access_overload": "o = {@access: |k| throw 'in access'}\nq = o.foo",
    "access_assign_overload": "o = {@access_assign: |k, v| throw 'in access assign'}\no.foo = 1",
    "index_assign_overload": "o = {@index_assign: |i, v| throw 'in index assign'}\no[0] = 1",
    "size_overload": "o = {@size: || throw 'in size'}\nq = size o",
    "iterator_overload": "o = {@iterator: || throw 'in iterator'}\nfor y in o\n  null",
    "display_print": "o = {@display: || throw 'in display'}\nprint o",
    "display_interp": "o = {@display: || throw 'in display'}\nq = 'a{o}b'",
    "list_construction": "q = [1, [2, 3], f_fail(2), 4]",
    "tuple_construction": "q = (1, (2, f_fail(1)), 4)",
    "map_construction": "q = {a: 1, b: {c: f_fail(0)}}",
    "string_construction": "q = 'a{1}b{'x{f_fail(1)}y'}c'",
    "nested_builders": "q = [1, 'a{[2, (3, f_fail(0))]}b', 5]",
    "type_check": "let q: String = 1",
    "arg_type_check": "h = |x: Number| x\nq = h('s')",
    "bad_index": "q = [1][7]",
    "type_mismatch": "q = 1 + null",
    "too_few_args": "q = f_add(1)",
    "too_many_args": "q = f_add(1, 2, 3)",
    "assert": "assert 1 == 2",
    "in_try_finally": "try\n  f_fail(1)\ncatch e\n  throw 'again'\nfinally\n  null",
    "in_loop_with_break_value": "q = for i in 0..5\n  if i == 3 then f_fail(1)\n  i",
    "in_match_arm": "q = match 1\n  1 then f_fail(2)\n  else 0",
    "in_callback_of_sort": "q = [3, 1, 2].sort |x| if x == 1 then throw 'in sort' else x",
    "in_map_update": "m = {a: 1}\nq = m.update 'a', |v| throw 'in update'",
    "iterator_next_object": "it = {@next: || throw 'in next'}\nfor y in it\n  null",
    "call_object": "c = {@call: || throw 'in call'}\nq = c()",
    "index_object": "c = {@index: |i| throw 'in index'}\nq = c[0]",
    "packed_args": "q = f_add([1, f_fail(0)]...)",
    "deep_recursion_then_throw": "r = |n| if n == 0 then throw 'bottom' else 1 + r(n - 1)\nq = r(60)",
    "koto_run_string": "q = koto.run 'throw \\'from run\\''",
    "koto_load_bad": "q = koto.load 'x = = 1'",
    "unpack_too_short": "f = |(a, b, c)| a\nq = f((1, 2))",
    "import_failing_top": "import bad_top",
    "import_failing_test": "from bad_test import x",
    "import_failing_main": "import bad_main",
    "import_failing_dependency": "from needs_bad import *",
    "import_cycle": "import cyc_a",
    "import_missing": "import no_such_module",
    "timeout": None,
    "compile_error": None,
}
# where the execution limit strikes: top level, below calls, inside try blocks (a timeout is not catchable: every frame up to the
# outermost one has to be unwound whatever handlers are active), inside overloads, callbacks, generators and displays
TIMEOUT_SHAPES = [
    "loop\n  x = 1\n",
    "f = ||\n  loop\n    x = 1\nf()\n",
    "try\n  loop\n    x = 1\ncatch _\n  print 'caught'\n",
    "spin = ||\n  try\n    loop\n      x = 1\n  catch _\n    'caught'\nouter = || spin()\nouter()\n",
    "spin = ||\n  try\n    loop\n      x = 1\n  catch _\n    'caught'\n  finally\n    y = 1\nouter = ||\n  try\n    spin()\n  catch _\n    'c2'\nouter()\n",
    "spin = |n|\n  try\n    if n > 0 then spin(n - 1)\n    loop\n      x = 1\n  catch _\n    'caught'\nspin 5\n",
    "o =\n  @+: |other|\n    try\n      loop\n        x = 1\n    catch _\n      0\nq = o + 1\n",
    "cb = |v|\n  try\n    loop\n      x = 1\n  catch _\n    0\nq = (1..3).each(cb).to_list()\n",
    "g = ||\n  try\n    loop\n      x = 1\n    yield 1\n  catch _\n    yield 2\nq = g().to_list()\n",
    "d =\n  @display: ||\n    try\n      loop\n        x = 1\n    catch _\n      'd'\nq = '{d}'\n",
]
MODULES = {
    "bad_top.koto": "export x = 1\nthrow 'bad_top fails'\n",
    "bad_test.koto": "export x = 1\n@test t = || throw 'bad_test fails'\n@main = || null\n",
    "bad_main.koto": "export x = 1\n@test t = || null\n@main = || throw 'bad_main fails'\n",
    "needs_bad.koto": "import good\nexport y = good.g\nimport bad_main\n",
    "cyc_a.koto": "import cyc_b\nexport a = 1\n",
    "cyc_b.koto": "import cyc_a\nexport b = 1\n",
    "good.koto": "export g = 'good'\n@main = || null\n",
}

def gen_history(rng, length):
    """Returns (ops, reference_ops). Each op is a request dict (without inst)."""
    ops, ref = [{"op": "inst_run", "src": INIT}], [{"op": "inst_run", "src": INIT}]
    for i in range(length):
        r = rng.random()
        effects = "export e_%d = %d\nshared.push %d\n" % (i, i * 3, i)
        if r < 0.25:
            src = effects + ("from good import g\nexport g_%d = g\n" % i if rng.random() < 0.3 else "") + "print 'ok %d'\n%d\n" % (i, i)
            ops.append({"op": "inst_run", "src": src, "kind": "run_ok"}); ref.append({"op": "inst_run", "src": src})
        elif r < 0.65:
            kind = rng.choice(sorted(FAULTS))
            if kind == "timeout":
                src = effects + rng.choice(TIMEOUT_SHAPES)
                ops.append({"op": "inst_run", "src": src, "kind": "fail:timeout", "expect": "timeout"})
            elif kind == "compile_error":
                src = effects + "y = = 1\n"
                ops.append({"op": "inst_run", "src": src, "kind": "fail:compile_error", "expect": "compile_error"})
                continue     # nothing ran: no effects
            else:
                src = effects + FAULTS[kind] + "\nprint 'unreachable'\n"
                # a module that cannot be found is reported by the loader at run time, with the loader's (compile) error kind
                ops.append({"op": "inst_run", "src": src, "kind": "fail:" + kind, "expect": "compile_error" if kind == "import_missing" else "runtime_error"})
            ref.append({"op": "inst_run", "src": effects + "0\n"})
        elif r < 0.8:
            k = rng.random()
            if k < 0.3:
                ops.append({"op": "inst_call", "fn": "f_add", "args": [i, 1], "kind": "call_ok", "expect_result": str(i + 1)})
            elif k < 0.45:
                a = {"op": "inst_call", "fn": "f_push", "args": [i * 100], "kind": "call_effect"}
                ops.append(a); ref.append(dict(a))
            elif k < 0.55:
                ops.append({"op": "inst_call", "fn": "f_add", "args": [1], "kind": "call_too_few", "expect": "runtime_error"})
            elif k < 0.65:
                ops.append({"op": "inst_call", "fn": "f_add", "args": [1, 2, 3], "kind": "call_too_many", "expect": "runtime_error"})
            elif k < 0.75:
                ops.append({"op": "inst_call", "fn": "f_add", "args": ["a", 1], "kind": "call_wrong_type", "expect": "runtime_error"})
            elif k < 0.85:
                ops.append({"op": "inst_call", "fn": "f_fail", "args": [rng.randint(0, 6)], "kind": "call_throws", "expect": "runtime_error"})
            elif k < 0.92:
                ops.append({"op": "inst_call", "fn": "f_unpack", "args": [3, 4], "as_tuple": True, "kind": "call_as_tuple", "expect_result": "7"})
            elif k < 0.96:
                ops.append({"op": "inst_call", "fn": "f_unpack", "args": [3], "as_tuple": True, "kind": "call_as_tuple_short", "expect": "runtime_error"})
            else:
                ops.append({"op": "inst_call", "fn": "no_such_fn", "args": [], "kind": "call_missing", "expect": "runtime_error"})
        elif r < 0.92:
            k = rng.random()
            if k < 0.4:
                ops.append({"op": "inst_call_native", "fn": "number.abs", "args": [-3 - i], "kind": "native_ok", "expect_result": str(3 + i)})
            elif k < 0.75:
                ops.append({"op": "inst_call_native", "fn": "number.abs", "args": ["not a number"], "kind": "native_bad_args", "expect": "runtime_error"})
            elif k < 0.9:
                ops.append({"op": "inst_call_native", "fn": "string.to_uppercase", "args": [5], "kind": "native_bad_args2", "expect": "runtime_error"})
            else:
                ops.append({"op": "inst_call_native", "fn": "list.get", "args": [[1, 2], 9, 7], "kind": "native_ok2", "expect_result": "7"})
        else:
            if rng.random() < 0.5:
                ops.append({"op": "inst_tostr", "export": "bad_disp", "kind": "tostr_throws", "expect": "runtime_error"})
            else:
                ops.append({"op": "inst_tostr", "export": "good_disp", "kind": "tostr_ok", "expect_result": "fine"})
    return ops, ref

def _shard(shard, n, tier, seed, budget_s):
    w = Worker()
    from kv.report import VERIF
    import shutil
    mod_dir = os.path.join(VERIF, "scratch", "c07", "%d_%d" % (os.getpid(), shard))
    os.makedirs(mod_dir, exist_ok=True)
    for name, text in MODULES.items():
        open(os.path.join(mod_dir, name), "w").write(text)
    script_path = os.path.join(mod_dir, "script.koto")
    open(script_path, "w").write("# the scripts of the histories are sent as text; imports resolve relative to this file\n")
    t_end = time.time() + budget_s
    rep = {"violations": [], "evaluations": 0, "distinct": set(), "samples": [], "passenger": [], "histories": 0, "ops": 0, "failing_ops": 0, "op_kinds": {}, "residue_checks": 0, "probe_comparisons": 0}
    i = 0
    max_len = 12 if tier == "quick" else 120
    while time.time() < t_end:
        i += 1
        rng = random.Random((seed * 1000003 + shard) * 1000003 + i)
        length = rng.randint(1, max_len) if rng.random() < 0.8 else max_len
        ops, ref = gen_history(rng, length)
        rep["histories"] += 1
        try:
            w.call({"op": "inst_new", "inst": "used", "limit_ms": 40})
            w.call({"op": "inst_new", "inst": "ref", "limit_ms": 40})
            bad = False
            trace = []
            for k, op in enumerate(ops):
                req = {x: y for x, y in op.items() if x not in ("kind", "expect", "expect_result")}
                req["inst"] = "used"
                if req["op"] == "inst_run":
                    req["path"] = script_path
                r = w.call(req, timeout=30)
                rep["evaluations"] += 1
                rep["ops"] += 1
                kind = op.get("kind", "init")
                rep["op_kinds"][kind] = rep["op_kinds"].get(kind, 0) + 1
                trace.append({"op": {x: (y if x != "src" else y[-200:]) for x, y in op.items()}, "outcome": r.get("outcome"), "error": (r.get("error") or "")[:80], "residue": r.get("residue")})
                if r.get("is_timeout") and kind != "fail:timeout":
                    # the 40 ms limit fired in an operation that does a few microseconds of work: the worker was descheduled
                    # (32 processes on 16 cores). The history is discarded and counted; many discards make the run inconclusive.
                    rep["timing_discards"] = rep.get("timing_discards", 0) + 1
                    bad = True; break
                if r.get("outcome") == "panic":
                    rep["violations"].append({"key": "panic:" + r["panic"]["signature"], "summary": "panic in history op %d (%s): %s" % (k, kind, r["panic"]["message"][:80]), "case": {"history": ops[:k + 1], "panic": r["panic"]}})
                    bad = True; break
                rep["residue_checks"] += 1
                if r.get("residue"):
                    rep["violations"].append({"key": "residue:%s:%s" % (kind, ";".join(x.split(":")[0] for x in r["residue"])), "summary": "after history op %d (%s, outcome %s) the VM is not quiescent: %s" % (
                        k, kind, r.get("outcome"), "; ".join(r["residue"])), "case": {"history": ops[:k + 1], "residue": r["residue"]}})
                    bad = True; break
                exp = op.get("expect")
                if exp:
                    rep["failing_ops"] += 1
                    ok = (exp == "timeout" and r.get("is_timeout")) or (exp == r.get("outcome") and not (exp == "runtime_error" and kind == "fail:timeout"))
                    if exp == "runtime_error" and r.get("outcome") == "runtime_error": ok = True
                    if kind == "fail:koto_load_bad" and r.get("outcome") == "compile_error": ok = True    # a compile error raised at run time by koto.load
                    if not ok:
                        rep["violations"].append({"key": "history-outcome:%s" % kind, "summary": "history op %d (%s): expected %s, got %s %s" % (k, kind, exp, r.get("outcome"), (r.get("error") or "")[:80]),
                                                  "case": {"history": ops[:k + 1], "response": {x: r.get(x) for x in ("outcome", "error", "result", "stdout")}}})
                        bad = True; break
                if "expect_result" in op and (r.get("outcome") != "ok" or r.get("result") != op["expect_result"]):
                    rep["violations"].append({"key": "history-result:%s" % kind, "summary": "history op %d (%s): expected result %s, got %s %r %s" % (k, kind, op["expect_result"], r.get("outcome"), r.get("result"), (r.get("error") or "")[:80]),
                                              "case": {"history": ops[:k + 1], "response": {x: r.get(x) for x in ("outcome", "error", "result", "stdout")}}})
                    bad = True; break
            if not bad:
                hiccup = False
                for op in ref:
                    req = dict(op); req["inst"] = "ref"
                    if req["op"] == "inst_run":
                        req["path"] = script_path
                    rr = w.call(req, timeout=30)
                    rep["evaluations"] += 1
                    if rr.get("is_timeout"):
                        hiccup = True
                if hiccup:
                    rep["timing_discards"] = rep.get("timing_discards", 0) + 1
                    continue
                e1 = w.call({"op": "inst_exports", "inst": "used"}).get("exports")
                e2 = w.call({"op": "inst_exports", "inst": "ref"}).get("exports")
                p1 = w.call({"op": "inst_run", "inst": "used", "src": PROBE}, timeout=30)
                p2 = w.call({"op": "inst_run", "inst": "ref", "src": PROBE}, timeout=30)
                if p1.get("is_timeout") or p2.get("is_timeout"):
                    rep["timing_discards"] = rep.get("timing_discards", 0) + 1
                    continue
                rep["probe_comparisons"] += 1
                rep["evaluations"] += 2
                v1 = (p1.get("outcome"), p1.get("stdout"), p1.get("result"), p1.get("error"))
                v2 = (p2.get("outcome"), p2.get("stdout"), p2.get("result"), p2.get("error"))
                if e1 != e2:
                    rep["violations"].append({"key": "exports-differ:%s" % sha(str(ops)), "summary": "after the history the exports differ from an instance that performed only the completed effects: %s vs %s" % (str(e1)[-150:], str(e2)[-150:]),
                                              "case": {"history": ops, "used": e1, "reference": e2}})
                elif v1 != v2 or p1.get("outcome") != "ok":
                    rep["violations"].append({"key": "probe-differs:%s" % sha(str(ops)), "summary": "the probe battery behaves differently on the used instance: %s vs %s" % (str(v1)[:200], str(v2)[:200]),
                                              "case": {"history": ops, "used": v1, "reference": v2, "trace": trace[-12:]}})
                elif p1.get("residue"):
                    rep["violations"].append({"key": "residue:probe", "summary": "the probe battery leaves residue: %s" % p1["residue"], "case": {"history": ops}})
                rep["distinct"].add(sha(str(ops)))
            if len(rep["samples"]) < 1 and len(ops) > 4:
                rep["samples"].append({"history": [dict((x, (y if x != "src" else y[:80])) for x, y in o.items()) for o in ops[1:6]]})
        except (WorkerDied, WorkerHang) as e:
            kindd = getattr(e, "kind", "hang")
            if kindd not in ("stack-overflow", "alloc"):
                rep["violations"].append({"key": "history-abnormal:%s" % kindd, "summary": "the worker %s while replaying a history" % ("hung" if kindd == "hang" else "died: " + str(e)[:100]), "case": {"history": ops}})
        finally:
            try:
                w.call({"op": "inst_drop", "inst": "used"}); w.call({"op": "inst_drop", "inst": "ref"})
            except (WorkerDied, WorkerHang):
                pass
    w.close()
    rep["distinct"] = len(rep["distinct"])
    return rep

def run(tier, seed):
    chk = Check(PID, tier, seed)
    if not chk.build():
        return chk.finish({"evaluations": 0, "distinct_nontrivial": 0, "rule": "", "samples": []})
    quick = tier == "quick"
    cov = {"evaluations": 0, "distinct_nontrivial": 0, "samples": [], "streams": {}, "passenger_observations": [], "passenger_src": []}
    shards = fan_out(_shard, tier=tier, seed=seed, budget_s=25 if quick else 420)
    c01.fold(chk, cov, "histories", shards)
    kinds = {}
    for s in shards:
        for k, v in (s.get("op_kinds") or {}).items(): kinds[k] = kinds.get(k, 0) + v
    cov["operations_by_kind"] = kinds
    discards = sum(s.get("timing_discards", 0) for s in shards if isinstance(s, dict))
    histories = sum(s.get("histories", 0) for s in shards if isinstance(s, dict))
    cov["histories_discarded_for_timing"] = discards
    if histories and discards > max(5, histories * 0.005):
        chk.inconclusive.append("%d of %d histories were discarded because the 40 ms limit fired in an operation that should finish in microseconds: machine too loaded, or the limit fires spuriously" % (discards, histories))
    cov.pop("passenger_observations", None); cov.pop("passenger_src", None)
    cov["rule"] = ("histories of 1-%d operations on one Koto instance (execution limit 40 ms): scripts with explicit effects (export e_i, shared.push i) that succeed or fail "
                   "after the effects through one of %d planted faults (nested calls, native callbacks, generators, operator / comparison / display / call / index / next "
                   "overloads, list / tuple / map / string construction, type checks, argument counts, packed arguments, try/finally, loops, match arms, koto.run / "
                   "koto.load, timeout, compile error), call_exported_function with good / too few / too many / wrong-typed / throwing / tuple arguments, call_function "
                   "on native functions with good and bad arguments, value_to_string on values whose @display throws. After every operation: residue monitor; at the "
                   "end: exports and a probe battery compared with a fresh instance that replays only the completed effects. distinct = distinct histories completed." % (
                       12 if quick else 120, len(FAULTS)))
    return chk.finish(cov, assumptions=["the quiescent state is calibrated at run time on the build under test (fresh instance after one trivial run)",
                                         "the effects of every script are explicit, so the reference instance needs no model of Koto"])
