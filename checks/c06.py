"""C06 host safety: no input makes compile, format, run or display panic.
Monitors: panic capture around every host-API phase; worker-death classifier."""
import json, os, re, sys, time
from .common import *
from kv.pool import fan_out

PID = "C06"

def _neighbourhood_shard(shard, n, tier, seed, budget_s):
    w = Worker()
    t_end = time.time() + budget_s
    progs = corpus_mod.load()
    rng = rng_for(seed, "c06-nbh", shard)
    order = [i for i in range(len(progs)) if i % n == shard]
    rng.shuffle(order)
    rep = _new_rep()
    keep = 1.0 if tier == "thorough" else 0.25
    def drive(src, origin, run):
        rep["evaluations"] += 1
        h = sha(src)
        if h in rep["distinct"]:
            return
        rep["distinct"].add(h)
        if run and corpus_mod.safe_to_run(src):
            r = w.exec(src, timeout=10, limit_ms=40, run_tests=True, retry_hang=False)
            if r.get("outcome") in ("ok", "runtime_error"):
                rep["ran"] += 1
        else:
            r = w.exec(src, timeout=10, compile_only=True, retry_hang=False)
        if r.get("outcome") in ("ok", "runtime_error", "compiled"):
            rep["compiled"] += 1
        _observe(rep, "exec", src, r, origin)
        try:
            f = w.call({"op": "format", "src": src, "options": {}}, timeout=10)
            if f.get("ok"):
                rep["formatted"] += 1
        except WorkerDied as e:
            f = {"outcome": "died", "kind": e.kind, "detail": e.detail}
        except WorkerHang:
            f = {"outcome": "hang"}
        _observe(rep, "format", src, f, origin)
    for pi in order:
        if time.time() > t_end:
            rep["inconclusive_budget"] = True
            break
        p = progs[pi]
        rep["programs"] += 1
        drive(p["src"], p["id"], p["runnable"])
        try:
            toks = w.call({"op": "tokens", "src": p["src"]}, timeout=10).get("tokens")
        except (WorkerDied, WorkerHang):
            toks = None
        if not toks:
            continue
        for kind, idx, text in token_mutants(p["src"], toks):
            if keep < 1.0 and rng.random() > keep:
                continue
            if time.time() > t_end:
                break
            drive(text, "%s/%s@%d" % (p["id"], kind, idx), p["runnable"])
            if len(rep["samples"]) < 2 and rng.random() < 0.01:
                rep["samples"].append({"origin": "%s/%s@%d" % (p["id"], kind, idx), "src": text[:300]})
    w.close()
    rep["distinct"] = len(rep["distinct"])
    return rep

def _observe(rep, kind, src, resp, origin, suffix=""):
    if resp.get("outcome") == "panic" or "panic" in resp:
        p = resp.get("panic") or {}
        if p.get("excluded"):
            rep["excluded"] += 1
            return "excluded"
        key = panic_key(resp) + suffix
        rep["panics_seen"][key] = rep["panics_seen"].get(key, 0) + 1
        rep["violations"].append({"key": key, "summary": "%s panicked (%s): %s at %s" % (kind, resp.get("phase", kind), p.get("message", "")[:120], p.get("location", "")),
                                  "case": {"op": kind, "src": src, "origin": origin, "panic": p}})
        return "panic"
    elif resp.get("outcome") == "died":
        k = resp.get("kind")
        rep["deaths"][k] = rep["deaths"].get(k, 0) + 1
        if k in ("stack-overflow", "alloc"):
            rep["excluded"] += 1
            return "excluded"
        rep["violations"].append({"key": "death:%s:%s" % (k, sha(src)), "summary": "worker died (%s) on %s: %s" % (k, kind, resp.get("detail", "")[-200:]),
                                  "case": {"op": kind, "src": src, "origin": origin}})
        return "died"
    elif resp.get("outcome") == "hang":
        rep["hangs"] += 1
        return "hang"
    return "fine"

def _new_rep():
    return {"violations": [], "evaluations": 0, "distinct": set(), "compiled": 0, "ran": 0, "formatted": 0,
            "hangs": 0, "excluded": 0, "deaths": {}, "samples": [], "programs": 0, "panics_seen": {}, "cells": 0,
            "hang_cases": []}

def _corelib_shard(shard, n, tier, seed, budget_s):
    from . import pools
    w = Worker()
    t_end = time.time() + budget_s
    rep = _new_rep()
    pre = w.call({"op": "prelude"})
    fns = []
    for mod, names in sorted(pre.items()):
        for name in sorted(names):
            full = (mod + "." + name) if mod else name
            if full in pools.DENY:
                continue
            fns.append(full)
    rep["functions"] = len(fns)
    rng = rng_for(seed, "c06-corelib", shard)
    # cells: (function, args tuple); shard by cell index
    def cells():
        for f in fns:
            yield f, ()
            for a in pools.POOL + pools.UNBOUNDED:
                yield f, (a,)
            for a in pools.POOL:
                for b in pools.POOL:
                    yield f, (a, b)
            if tier == "thorough":
                for a in pools.SUBPOOL3:
                    for b in pools.SUBPOOL3:
                        for c in pools.SUBPOOL3:
                            yield f, (a, b, c)
    keep = 1.0 if tier == "thorough" else 0.5
    hang_fns = {}
    for idx, (f, args) in enumerate(cells()):
        if idx % n != shard:
            continue
        if keep < 1.0 and len(args) == 2 and rng.random() > keep:
            continue
        if time.time() > t_end:
            rep["inconclusive_budget"] = True
            break
        # a function that hung twice with this first argument is a native loop: skip its remaining cells
        hk = (f, args[:1])
        if hang_fns.get(hk, 0) >= 1 or hang_fns.get((f, "*"), 0) >= 4:
            continue
        src = pools.PRELUDE + "r = try\n  %s(%s)\ncatch e\n  'ERR'\nr\n" % (f, ", ".join(args))
        rep["evaluations"] += 1
        rep["cells"] += 1
        r = w.exec(src, timeout=3, limit_ms=500, retry_hang=False)
        if r.get("outcome") in ("ok", "runtime_error"):
            rep["ran"] += 1
            if r.get("result") != "ERR":
                rep["distinct"].add((f, len(args)))
        res = _observe(rep, "corelib", src, r, "%s(%s)" % (f, ", ".join(args)), suffix="@" + f)
        if res == "hang":
            hang_fns[hk] = hang_fns.get(hk, 0) + 1
            hang_fns[(f, "*")] = hang_fns.get((f, "*"), 0) + 1
            if len(rep["hang_cases"]) < 50:
                rep["hang_cases"].append("%s(%s)" % (f, ", ".join(args)))
        if len(rep["samples"]) < 2 and rng.random() < 0.001:
            rep["samples"].append({"call": "%s(%s)" % (f, ", ".join(args)), "outcome": r.get("outcome"), "result": r.get("result"), "error": (r.get("error") or "")[:80]})
    w.close()
    rep["distinct"] = len(rep["distinct"])
    return rep

REENTRANT = """L = [3, 1, 2]
M = {b: 2, a: 1, c: 3}
T = (1, 2, 3)
"""
def _reentrancy_cases():
    """Scripts in which a callback, a second argument or an element's metakey touches the container
    the running native function works on. {t} is the touching statement."""
    touches_l = ["size L", "L.push 9", "L.pop()", "L.clear()", "L.sort()", "L.to_tuple()", "L.first()", "L[0] = 5", "L.insert 0, 7",
                 "L.remove 0", "L.reverse()", "L.resize 1", "L.fill 0", "copy L", "'{L}'", "L == L", "L.contains 1", "L.extend L", "L.get 0",
                 "L.retain |y| true", "L.transform |y| y", "L.swap [1]", "L.iter().to_list()", "koto.deep_copy L", "L.last()", "L.is_empty()"]
    touches_m = ["size M", "M.insert 'z', 9", "M.remove 'a'", "M.clear()", "M.sort()", "M.keys().to_tuple()", "M.get 'a'", "M.a = 5",
                 "M.update 'a', |v| 0", "M.extend M", "copy M", "'{M}'", "M == M", "M.contains_key 'a'", "M[0]", "M.get_index 0", "M.values().to_list()",
                 "M.remove_index 0", "M.is_empty()", "koto.deep_copy M"]
    # (callback signature, value returned by the callback, call using cb)
    list_fns = [("|x|", "x", "L.transform cb"), ("|x|", "true", "L.retain cb"), ("|x|", "x", "L.sort cb"), ("|x|", "x", "L.each(cb).consume()"),
                ("|x|", "true", "L.keep(cb).to_list()"), ("|a, x|", "a", "L.fold 0, cb"), ("|x|", "false", "L.find cb"), ("|x|", "false", "L.any cb"),
                ("|x|", "true", "L.all cb"), ("|x|", "false", "L.position cb"), ("|x|", "x", "L.min cb"), ("|x|", "x", "L.max cb"), ("|x|", "x", "L.min_max cb"),
                ("|x|", "x", "L.iter().each(cb).to_tuple()"), ("|c|", "c", "L.chunks(2).each(cb).consume()"), ("|c|", "c", "L.windows(2).each(cb).consume()"),
                ("|x|", "x", "for x in L\n  cb x\n  if size(L) > 20 then break"), ("|x|", "x", "L.iter().reversed().each(cb).to_list()"),
                ("|x|", "x", "L.iter().skip(1).each(cb).to_list()"), ("||", "0", "L.intersperse(cb).to_list()"), ("|x|", "'{x}'", "L.each(cb).to_string()"),
                ("|x|", "(x, x)", "L.each(cb).to_map()"), ("|x|", "x", "L.each(cb).sum()"), ("|x|", "x", "L.each(cb).count()"), ("|x|", "x", "L.each(cb).last()"),
                ("|x|", "[x]", "L.each(cb).flatten().to_list()"), ("|x|", "x", "L.each(cb).cycle().take(7).to_list()"), ("|x|", "x", "L.each(cb).zip(L).to_list()"),
                ("|x|", "x", "L.each(cb).chain(L).to_list()"), ("|x|", "x", "L.each(cb).enumerate().to_list()"), ("|x|", "x", "L.each(cb).step(2).to_list()"),
                ("|x|", "x", "L.each(cb).peekable().to_list()"), ("|x|", "x", "L.each(cb).take(2).to_list()"), ("|x|", "x", "L.each(cb).skip(1).next()")]
    map_fns = [("|k, v|", "k", "M.sort cb"), ("|v|", "v", "M.update 'a', cb"), ("|e|", "e", "M.each(cb).consume()"), ("|e|", "true", "M.keep(cb).to_map()"),
               ("|a, e|", "a", "M.fold 0, cb"), ("|k|", "k", "for k, v in M\n  cb k\n  if size(M) > 20 then break"), ("|k|", "k", "M.keys().each(cb).consume()"),
               ("|k|", "k", "M.values().each(cb).consume()"), ("|e|", "false", "M.find cb"), ("|v|", "v", "M.update 'nope', 0, cb"), ("|e|", "e", "M.each(cb).to_list()"),
               ("|e|", "e", "M.iter().reversed().each(cb).to_list()")]
    def mk(sig, ret, call, t):
        return "cb = %s\n  %s\n  %s\n%s" % (sig, t, ret, call)
    for sig, ret, call in list_fns:
        for t in touches_l + touches_m[:6]:
            yield mk(sig, ret, call, t)
    for sig, ret, call in map_fns:
        for t in touches_m + touches_l[:6]:
            yield mk(sig, ret, call, t)
    # receivers passed to themselves, self-referential containers
    for s in ["L.extend L", "L.swap L", "M.extend M", "L.push L\nprint L", "M.insert 'm', M\nprint M", "L.push L\nL == L", "M.insert 'm', M\nM == M",
              "L.push L\nkoto.hash L", "L.push L\nkoto.deep_copy L", "M.insert 'm', M\nkoto.deep_copy M",
              "L.push L\nL.sort()", "L.push L\nL.contains L", "L.push L\n'{L}'", "L.push L\nL.to_tuple() == L.to_tuple()",
              "it = L.iter()\nit.each(|x| it.next()).to_list()", "it = L.iter()\nit.zip(it).to_list()", "it = L.iter()\nit.chain(it).to_list()",
              "it = M.iter()\nit.each(|x| it.next()).to_list()", "p = L.iter().peekable()\np.each(|x| p.peek()).to_list()",
              "L.insert 1, L\nL.flatten().to_list()", "x = [L, L]\nx.flatten().each(|q| L.pop()).to_list()", "L.extend L.iter()", "M.extend M.iter()",
              "L.extend L.iter().each |x| L.pop()", "L.insert 0, L\nL.first().push 1\nsize L", "M.insert M, 1", "L.fill L\nL == L", "L.resize 5, L\nprint L",
              "x = (L, L)\nL.push x\nx == x", "x = (L,)\nL.push x\nkoto.hash x", "x = (L,)\nL.push x\nm = {}\nm.insert x, 1", "L.push M\nM.l = L\nprint L",
              "L.push M\nM.l = L\nL == L.to_list()", "L.push L\nL.to_tuple().contains L", "L.push L\nt = L.to_tuple()\nt == t"]:
        yield s
    # element metakeys that touch the container being compared / sorted / displayed
    for body, op in [("@==: |o| (L.push 1) == null", "L == L.to_list()"), ("@<: |o| (L.pop()) == null", "L.sort()"), ("@display: || '{L.clear()}'", "'{L}'"),
                     ("@display: || '{L.push 1}'", "print L"), ("@<: |o| (L.push 1) == 5", "L.min()"), ("@==: |o| (L.clear()) == 5", "L.contains 5"),
                     ("@<: |o| (L.clear()) == 5", "L.sort()"), ("@==: |o| (M.clear()) == null", "M == M.to_map()"), ("@display: || '{M.insert 'q', 1}'", "'{M}'"),
                     ("@<: |o| (L.sort()) == 5", "L.sort()"), ("@<: |o| (L.clear()) == 5", "L.max()"), ("@==: |o| (L.clear()) == 5", "L.position |x| x == 5"),
                     ("@display: || '{M.clear()}'", "print M"), ("@==: |o| (L.remove 0) == 5", "L.to_tuple() == L.to_tuple()"),
                     ("@<: |o| (M.clear()) == 5", "M.sort |k, v| v"), ("@next: || (L.clear()) == 5", "L.extend e")]:
        yield "e = {%s}\nL.push e\nL.push e\nM.insert 'e', e\n%s" % (body, op)

def _reentrancy_shard(shard, n, tier, seed, budget_s):
    w = Worker()
    rep = _new_rep()
    for idx, body in enumerate(_reentrancy_cases()):
        if idx % n != shard:
            continue
        src = REENTRANT + "r = try\n" + "\n".join("  " + l for l in body.split("\n")) + "\ncatch e\n  'ERR'\nr\n"
        rep["evaluations"] += 1
        r = w.exec(src, timeout=5, limit_ms=500, retry_hang=False)
        if r.get("outcome") in ("ok", "runtime_error"):
            rep["ran"] += 1
            rep["distinct"].add(body)
        elif r.get("outcome") == "compile_error":
            rep.setdefault("compile_errors", []).append(body)
        _observe(rep, "reentrancy", src, r, body)
        if len(rep["samples"]) < 1:
            rep["samples"].append({"script": body, "outcome": r.get("outcome"), "result": r.get("result")})
    w.close()
    rep["distinct"] = len(rep["distinct"])
    return rep

def _operator_cells(tier):
    """VM-level operations (no core library call involved) over the boundary pool, and literal grids."""
    from . import pools
    pool = pools.POOL
    ops = ["+", "-", "*", "/", "%", "^", "==", "!=", "<", "<=", ">", ">=", "and", "or"]
    for a in pool:
        # values wrapped by iterator outputs / thrown / nested in containers when they are displayed by the host
        yield "y = [%s].iter().next()\nx = '{y}'" % a
        yield "y = [%s].iter().next()\nx = '{y:?}'" % a
        yield "y = (%s,).peekable().peek()\nx = '{[y, (y,), {k: y}]}'" % a
        yield "y = [%s].iter().next_back()\nprint y" % a
        yield "UNCAUGHT:throw [%s].iter().next()" % a
        yield "UNCAUGHT:throw %s" % a
        yield "UNCAUGHT:throw [%s, (%s,)]" % (a, a)
        yield "x = -%s" % a
        yield "x = not %s" % a
        yield "x = size %s" % a
        yield "x = '{%s}'" % a if "'" not in a and '"' not in a else "y = %s\nx = '{y}'" % a
        yield "y = %s\nx = '{y:?}'" % a
        yield "for q in %s\n  break" % a
        yield "a, b, c... = %s" % a
        yield "f = |(p, others...)| p\nx = f %s" % a
        yield "f = |args...| size args\nx = f %s..." % a
        yield "x = obj %s..." % a
        yield "x = match %s\n  (1, ...) then 1\n  (..., 2) then 2\n  {a} then 3\n  [x, y] then 4\n  'a' then 5\n  else 6" % a
        for b in pool:
            for op in ops:
                yield "x = %s %s %s" % (a, op, b)
            for op in ops[:6]:
                yield "x = %s\nx %s= %s" % (a, op, b)
            yield "x = %s[%s]" % (a, b)
            yield "y = %s\ny[%s] = 1" % (a, b)
            yield "x = %s[%s..]" % (a, b) if b.lstrip("(-").split(" ")[0].replace(".", "").isdigit() else "x = %s[0..1]" % a
    # syntax that is only meaningful in one position (patterns, argument lists, keywords, type hints) placed in every other one,
    # used and unused: the parser accepts some of these provisionally and the compiler has to reject or compile them
    constructs = ["{a as b}", "{a as b, c}", "{a, b as _}", "{a}", "{a: Number}", "{a as b: Number}", "(a, rest...)", "(rest..., a)", "(...)", "...", "rest...", "_", "_x", "a: Number", "z = 1",
                  "z += 1", "yield 1", "break", "break 1", "continue", "return", "return 1", "export z = 1", "import foo", "from foo import bar", "let q = 1", "let q: String = 1", "@main", "@type", "self",
                  "a?", "a?.b", "null?", "|a| a", "|(a, b...)| a", "|{a as b}| b", "1..", "..", "..=2", "throw 1", "debug 1", "not", "-", "x -> f", "if a then 1", "match a", "a then 1", "else 1", "catch e",
                  "'{a as b}'", "'{'", "r'x", "1 2", "a b", "a.1", "a.'k'", "a..b..c", "1 < 2 < 3", "a = b = 1", "a, b = 1", "(a, b) = 1, 2", "[a, b] = [1, 2]", "{a}.a", "x: 1", "x: y: 2", "'k': 1", "@+: 1", "f(z = 1)", "f z = 1", "f(a...)", "f a..."]
    contexts = ["%s", "(%s, z = 1)", "(%s, 1)", "(%s)", "[%s]", "f(%s)", "f %s", "x = %s", "x = (%s, z = 1)", "q = ||\n  (%s, z = 1)\n  1", "q = ||\n  %s\n  1", "q = || %s", "q = || (%s, 1)", "match 1\n  %s then 2\n  else 3",
                "match (1, 2)\n  (%s, 2) then 2\n  else 3", "for %s in [(1, 2)]\n  1", "for k, %s in {a: 1}\n  1", "q = |%s| 1", "q = |%s| 1\nq({a: 1})", "q = |k, %s| 1", "if %s then 1", "if %s\n  1", "while %s\n  break",
                "{k: %s}", "{%s}", "'{%s}'", "return %s", "throw %s", "try\n  %s\ncatch e\n  1", "try\n  1\ncatch %s\n  1", "x = if true then %s", "%s = 1", "%s, y = 1, 2", "let %s = 1", "x += %s", "1 + %s", "%s + 1", "%s.foo", "%s[0]", "%s()",
                "1 -> %s", "%s -> f", "switch\n  %s then 1\n  else 2", "x = switch\n  true then %s", "m =\n  k: %s", "m =\n  %s", "m =\n  @meta %s: 1", "export %s", "export\n  %s", "import %s", "from %s import x", "from x import %s",
                "loop\n  %s\n  break", "x = loop\n  break %s", "yield %s", "debug %s", "assert %s", "%s\n  1", "%s:\n  1", "f\n  %s", "f(1,\n  %s)", "x = 1\n  %s", "(1, %s, z = 1)\n1", "[1, %s\n]", "x = [%s for y in z]"]
    for cst in constructs:
        for ctxt in contexts:
            yield "RAW:a = 1\nz = 0\nf = |args...| null\n" + ctxt % cst
    # iterators used again after they are exhausted, half-consumed, copied, or reversed
    makers = ["'a,b,c'.split(',')", "'a b'.split(' ')", "'ab\\ncd'.lines()", "'héé'.chars()", "'héé'.char_indices()", "'ab'.bytes()", "[1, 2, 3].iter()", "(1, 2).iter()", "(1..4).iter()",
              "{a: 1, b: 2}.keys()", "{a: 1, b: 2}.values()", "{a: 1}.iter()", "gen()", "[1, 2, 3].each(|v| v)", "[1, 2, 3].keep(|v| true)", "[1, 2, 3].chunks(2)", "[1, 2, 3].windows(2)",
              "[1, 2].cycle().take(5)", "[1, 2, 3].enumerate()", "[1, 2].zip([3, 4])", "[1, 2].chain([3])", "[[1], [2]].flatten()", "[1, 2, 3].intersperse(0)", "[1, 2, 3].skip(1)", "[1, 2, 3].step(2)",
              "[1, 2, 3].take(2)", "[1, 2, 3].reversed()", "[1, 2, 3].peekable()", "iterator.repeat(1, 3)", "iterator.once(1)", "iterator.generate((|| 1), 3)", "'a-b'.split(|c| c == '-')", "'  a'.trim().chars()"]
    uses = ["x.to_list()", "x.to_tuple()", "x.count()", "x.last()", "x.next()", "x.next_back()", "x.to_string()", "x.to_map()", "x.min()", "x.sum()", "x.reversed().to_list()", "x.skip(1).to_list()",
            "x.chunks(2).to_list()", "x.windows(2).to_list()", "copy(x).to_list()", "x.peekable().peek()", "x.cycle().take(3).to_list()", "x.advance(2)", "(size x)"]
    for mk in makers:
        for pre in (0, 1, 2, 5):
            for u in uses:
                yield "x = %s\n%sr = %s" % (mk, "x.next()\n" * pre, u)
                yield "x = %s\nfor v in x\n  null\nr = %s" % (mk, u)
    ints = ["0", "1", "-1", "2", "3", "-3", "64", "255", "256", "65535", "65536", "70000", "4294967295", "4294967296", "9223372036854775807", "(-9223372036854775807 - 1)"]
    for c in ("[1, 2, 3]", "(1, 2, 3)", "'héllo'", "{a: 1, b: 2}", "(1..5)"):
        for a in ints:
            for b in ints:
                yield "x = %s[%s..%s]" % (c, a, b)
                yield "x = %s[%s..=%s]" % (c, a, b)
            yield "x = %s[..%s]" % (c, a)
            yield "x = %s[%s..]" % (c, a)
            yield "y = %s\ny[..%s] = 0" % (c, a)
    # literals: escapes and format specifications
    for n in range(0, 14):
        for d in ("f", "0", "1", "a"):
            yield "x = '\\u{%s}'" % (d * n)
            yield "x = '\\x%s'" % (d * n)
    nums = ["", "0", "1", "7", "255", "256", "65535", "65536", "70000", "4294967295", "4294967296", "99999999999999999999"]
    vals = ["1", "1.5", "-1.5", "'ab'", "[1]", "null", "(0 / 0)", "(1 / 0)", "9223372036854775807"]
    for wdt in nums:
        for prec in nums:
            for rep in ("", "?", "e", "E", "x", "b", "o", "X"):
                spec = wdt + ("." + prec if prec else "") + rep
                if not spec:
                    continue
                if len(wdt) > 6 and tier != "thorough":
                    continue
                for v in vals:
                    if wdt in ("4294967295", "4294967296", "99999999999999999999", "70000", "65536", "65535") and v != "1.5":
                        continue  # huge widths allocate: one value is enough
                    yield "v = %s\nx = '{v:%s}'" % (v, spec)
                    if len(wdt) <= 3:
                        yield "v = %s\nx = '{v:*<%s}'" % (v, spec)

def _operators_shard(shard, n, tier, seed, budget_s, asan=False):
    from . import pools
    if asan:
        from kv import sanitize
        w = sanitize.asan_worker()
    else:
        w = Worker()
    t_end = time.time() + budget_s
    rep = _new_rep()
    for idx, body in enumerate(_operator_cells(tier)):
        if idx % n != shard:
            continue
        if time.time() > t_end:
            rep["inconclusive_budget"] = True
            break
        if asan and re.search(r"\{v:[^}]*\d{5,}", body):
            continue      # gigabyte-wide padding is an allocation test: the sanitizer worker runs without an address-space limit
        if body.startswith("RAW:"):
            src = body[len("RAW:"):] + "\n"
        elif body.startswith("UNCAUGHT:"):
            src = pools.PRELUDE + body[len("UNCAUGHT:"):] + "\n"      # the host renders the uncaught error
        else:
            src = pools.PRELUDE + "try\n" + "\n".join("  " + l for l in body.split("\n")) + "\ncatch _\n  null\n"
        r = w.exec(src, timeout=20, limit_ms=2000, retry_hang=False)
        rep["evaluations"] += 1; rep["cells"] += 1
        rep["distinct"].add(sha(body))
        if r.get("outcome") not in ("compile_error",):
            rep["compiled"] += 1; rep["ran"] += 1
        if asan and r.get("outcome") == "died" and re.search(r"allocation-size-too-big|out-of-memory|hard rss limit|failed to allocate", r.get("detail") or ""):
            rep["excluded"] += 1      # allocation failure, reported by the sanitizer's allocator
            continue
        if asan and r.get("outcome") == "died" and "AddressSanitizer" in (r.get("detail") or ""):
            rep["violations"].append({"key": "asan:%s" % sha(r["detail"][-300:]), "summary": "AddressSanitizer report while running an operator cell: " + r["detail"][-300:], "case": {"src": src, "detail": r["detail"]}})
            continue
        _observe(rep, "exec", src, r, "operators-asan" if asan else "operators")
        if len(rep["samples"]) < 1 and idx > 50:
            rep["samples"].append({"cell": body})
    w.close()
    rep["distinct"] = len(rep["distinct"])
    return rep

def _noise_shard(shard, n, tier, seed, budget_s):
    """(b) token soups and byte noise"""
    w = Worker()
    rep = _new_rep()
    rng = rng_for(seed, "c06-noise", shard)
    progs = corpus_mod.load()
    t_end = time.time() + budget_s
    # token multiset from a sample of programs
    bag = []
    for p in rng.sample(progs, min(60, len(progs))):
        try:
            toks = w.call({"op": "tokens", "src": p["src"]}, timeout=10).get("tokens") or []
        except (WorkerDied, WorkerHang):
            continue
        b = p["src"].encode()
        for s, e, name in toks:
            bag.append(b[s:e].decode("utf-8", "replace"))
    extras = ["\r\n", "\t", "é", "漢", "😀", "\u0301", "\\", "'", '"', "{", "}", "#-", "-#", "r#'", "'#", "\n  ", "\n    ", "\n", "\n", "\n", " ", " ", " "]
    count = 20000 if tier == "thorough" else 1500
    for k in range(count):
        if time.time() > t_end:
            break
        mode = rng.random()
        if mode < 0.5 and bag:
            src = "".join(rng.choice(bag) if rng.random() < 0.85 else rng.choice(extras) for _ in range(rng.randint(1, 40)))
        else:
            base = rng.choice(progs)["src"]
            chars = list(base)
            for _ in range(rng.randint(1, 4)):
                if not chars:
                    break
                i = rng.randrange(len(chars))
                op = rng.random()
                if op < 0.3:
                    del chars[i:i + rng.randint(1, 5)]
                elif op < 0.6:
                    chars[i:i] = list(rng.choice(extras))
                elif op < 0.8:
                    chars = chars[:i]
                else:
                    j = rng.randrange(len(chars))
                    chars[i:i] = chars[j:j + rng.randint(1, 20)]
            src = "".join(chars)
        rep["evaluations"] += 1
        h = sha(src)
        if h in rep["distinct"]:
            continue
        rep["distinct"].add(h)
        if corpus_mod.safe_to_run(src):
            r = w.exec(src, timeout=10, limit_ms=40, run_tests=True, retry_hang=False)
        else:
            r = w.exec(src, timeout=10, compile_only=True, retry_hang=False)
        if r.get("outcome") in ("ok", "runtime_error", "compiled"):
            rep["compiled"] += 1
        _observe(rep, "exec", src, r, "noise")
        try:
            f = w.call({"op": "format", "src": src, "options": {}}, timeout=10)
        except WorkerDied as e:
            f = {"outcome": "died", "kind": e.kind, "detail": e.detail}
        except WorkerHang:
            f = {"outcome": "hang"}
        if f.get("ok"):
            rep["formatted"] += 1
        _observe(rep, "format", src, f, "noise")
        if len(rep["samples"]) < 1 and k > 5:
            rep["samples"].append({"noise": src[:200]})
    w.close()
    rep["distinct"] = len(rep["distinct"])
    return rep

def run(tier, seed):
    chk = Check(PID, tier, seed)
    if not chk.build():
        return chk.finish({"evaluations": 0, "distinct_nontrivial": 0, "rule": "", "samples": []})
    quick = tier == "quick"
    streams = [("neighbourhood", _neighbourhood_shard, 40 if quick else 900),
               ("noise", _noise_shard, 15 if quick else 300),
               ("corelib", _corelib_shard, 60 if quick else 1500),
               ("reentrancy", _reentrancy_shard, 60),
               ("operators", _operators_shard, 90 if quick else 900)]
    cov = {"evaluations": 0, "distinct_nontrivial": 0, "samples": [], "panic_signatures": {}, "streams": {},
           "excluded_alloc_or_stack": 0, "hangs": 0}
    # witnesses of the recorded findings are replayed first
    w = Worker()
    wrep = _new_rep()
    for f in chk.known:
        wit = f.get("witness") or {}
        if "src" not in wit:
            continue
        if wit.get("op") == "format":
            try:
                r = w.call({"op": "format", "src": wit["src"], "options": {}}, timeout=10)
            except (WorkerDied, WorkerHang):
                r = {}
            _observe(wrep, "format", wit["src"], r, "witness " + f["id"])
        else:
            r = w.exec(wit["src"], timeout=10, limit_ms=500, retry_hang=False)
            _observe(wrep, "exec", wit["src"], r, "witness " + f["id"])
    w.close()
    chk.merge_shard(wrep)
    only = os.environ.get("KV_STREAMS")
    if not quick:
        # sanitizer layer: the operators stream again on an AddressSanitizer build of the worker
        from kv import sanitize
        ok, log = sanitize.build_asan()
        if ok:
            streams.append(("operators-asan", _operators_shard, 1200))
        else:
            chk.inconclusive.append("the AddressSanitizer build failed (sanitizer part skipped): " + log[-200:].replace("\n", " "))
    for name, fn, budget in streams:
        if only and name not in only.split(","):
            continue
        shards = fan_out(fn, tier=tier, seed=seed, budget_s=budget, **({"asan": True} if name == "operators-asan" else {}))
        st = {"evaluations": 0, "distinct": 0, "compiled": 0, "ran": 0, "formatted": 0, "hangs": 0, "excluded": 0,
              "deaths": {}, "budget_exhausted": False}
        for s in shards:
            chk.merge_shard(s)
            if "harness_error" in s:
                continue
            for k in ("evaluations", "distinct", "compiled", "ran", "formatted", "hangs", "excluded"):
                st[k] += s[k]
            for k, v in s["deaths"].items():
                st["deaths"][k] = st["deaths"].get(k, 0) + v
            if s.get("inconclusive_budget"):
                st["budget_exhausted"] = True
            if "functions" in s:
                st["functions"] = s["functions"]
            if s.get("hang_cases"):
                st.setdefault("hang_cases", [])
                st["hang_cases"] += s["hang_cases"][:5]
            if s.get("compile_errors"):
                st.setdefault("scripts_not_compiling", [])
                st["scripts_not_compiling"] += s["compile_errors"]
            cov["samples"] += s["samples"][:1] if len(cov["samples"]) < 8 else []
            for k, v in s["panics_seen"].items():
                cov["panic_signatures"][k] = cov["panic_signatures"].get(k, 0) + v
        cov["streams"][name] = st
        cov["evaluations"] += st["evaluations"]
        cov["distinct_nontrivial"] += st["distinct"]
        cov["excluded_alloc_or_stack"] += st["excluded"]
        cov["hangs"] += st["hangs"]
    cov["rule"] = ("five streams (e: VM-level operations - unary, binary, compound assignment, index, index-assign, slices with extreme bounds, unpacking, packed calls, match - over "
                   "the boundary pool, literal escapes with 0-13 digits, format specifications with widths / precisions up to 2^64; in the thorough tier again on an AddressSanitizer build): "
                   "(a) corpus programs and their single-token delete/duplicate/swap neighbourhood (%s), each distinct text compiled, "
                   "formatted and - if it touches neither io nor os - run under a 40 ms execution limit with tests on and its result/error displayed; "
                   "(b) token soups and character noise over corpus programs; (c) every native function of the prelude (walked at run time) x argument "
                   "tuples of arity 0-%d over a %d-value boundary pool; (d) callbacks / arguments / element metakeys that touch the receiver of the "
                   "native function that is running. distinct = distinct texts (a,b), distinct (function, arity) cells that returned a value (c), "
                   "distinct scripts (d). Hangs (native loops) are counted, never verdicts." % (
                       "complete" if not quick else "seeded 25% slice", 2 if quick else 3, 45))
    return chk.finish(cov, assumptions=["allocation failure and native stack exhaustion are exempt (property text)",
                                         "panic signature = first /repo frame outside crates/memory + core-lib entry points + message with digits and quoted excerpts masked",
                                         "native loops that never return to the interpreter (e.g. iterator.step with a huge step) are hangs: inconclusive, not violations"])
