//! Persistent runtime instances (C07 histories, C08 timeouts): every operation is a top-level host API call on a
//! `Koto` instance, followed by a residue observation at the VM state hook

use crate::exec::{self, ExecRequest, OutputCapture};
use crate::{monitor, panics};
use koto::prelude::*;
use serde_json::{Value, json};
use std::cell::RefCell;
use std::collections::HashMap;

struct Inst {
    koto: Koto,
    out: OutputCapture,
}

thread_local! {
    static INSTANCES: RefCell<HashMap<String, Inst>> = RefCell::new(HashMap::new());
}

fn finish(inst: &mut Inst, mut resp: serde_json::Map<String, Value>) -> Value {
    let snap = monitor::take_run();
    resp.insert(
        "vm".into(),
        json!({"instructions": snap.instructions, "faults": exec::faults_json(&snap.faults), "armed": snap.timeout_armed,
               "polled": snap.timeout_polled, "fired": snap.timeout_fired, "max_depth": snap.max_call_depth}),
    );
    let state = inst.koto.verif_vm().verif_state();
    resp.insert("residue".into(), json!(exec::residue(&state, &exec::quiescent_state())));
    resp.insert("state".into(), exec::state_json(&state));
    let extra = inst.out.take();
    if !extra.is_empty() {
        let prev = resp.get("stdout").and_then(|s| s.as_str()).unwrap_or("").to_string();
        resp.insert("stdout".into(), json!(prev + &extra));
    }
    Value::Object(resp)
}

fn result_json(koto: &mut Koto, r: std::result::Result<koto::Result<KValue>, panics::PanicInfo>, resp: &mut serde_json::Map<String, Value>) {
    match r {
        Err(p) => {
            resp.insert("outcome".into(), json!("panic"));
            resp.insert("panic".into(), panics::to_json(&p));
        }
        Ok(Ok(v)) => {
            let ty = v.type_as_string().to_string();
            match panics::guarded(|| koto.value_to_string(v.clone())) {
                Ok(Ok(s)) => {
                    resp.insert("outcome".into(), json!("ok"));
                    resp.insert("result".into(), json!(s));
                    resp.insert("result_type".into(), json!(ty));
                }
                Ok(Err(e)) => {
                    resp.insert("outcome".into(), json!("ok"));
                    resp.insert("result".into(), Value::Null);
                    resp.insert("display_error".into(), json!(panics::guarded(|| e.to_string()).unwrap_or_default()));
                }
                Err(p) => {
                    resp.insert("outcome".into(), json!("panic"));
                    resp.insert("panic".into(), panics::to_json(&p));
                }
            }
        }
        Ok(Ok(_)) if false => {}
        Ok(Err(e)) => match panics::guarded(|| e.to_string()) {
            Ok(full) => {
                let (msg, trace) = exec::split_error(&full);
                let is_compile = matches!(e, koto::Error::CompileError { .. });
                resp.insert("outcome".into(), json!(if is_compile { "compile_error" } else { "runtime_error" }));
                resp.insert("is_timeout".into(), json!(msg.starts_with("execution timed out")));
                if let Some(tag) = monitor::classify_internal_error(&msg) {
                    resp.insert("internal_fault".into(), json!(tag));
                }
                resp.insert("error".into(), json!(msg));
                // a deep recursion leaves a trace of millions of frames: only its head travels to the driver
                resp.insert("trace".into(), json!(exec::clip(&trace, 20_000)));
            }
            Err(p) => {
                resp.insert("outcome".into(), json!("panic"));
                resp.insert("panic".into(), panics::to_json(&p));
            }
        },
    }
}

pub fn op(req: &Value) -> Value {
    let name = req["op"].as_str().unwrap_or("");
    let id = req["inst"].as_str().unwrap_or("default").to_string();
    if name == "inst_new" {
        let mut r = ExecRequest::from_json(req);
        r.limit_ms = req.get("limit_ms").and_then(|x| x.as_u64()).unwrap_or(0);
        let (koto, out) = exec::make_koto(&r);
        let _ = exec::quiescent_state();
        INSTANCES.with(|m| m.borrow_mut().insert(id, Inst { koto, out }));
        return json!({"ok": true});
    }
    if name == "inst_drop" {
        INSTANCES.with(|m| m.borrow_mut().remove(&id));
        return json!({"ok": true});
    }
    INSTANCES.with(|m| {
        let mut m = m.borrow_mut();
        let Some(inst) = m.get_mut(&id) else {
            return json!({"harness_error": format!("no instance {id}")});
        };
        let _ = monitor::take_run();
        let mut resp = serde_json::Map::new();
        match name {
            "inst_run" => {
                let r = ExecRequest::from_json(req);
                let t_call = std::time::Instant::now();
                let result = panics::guarded(|| inst.koto.compile_and_run(exec::compile_args(&r)));
                // time until the host API returned (rendering the error text below is the host's own cost)
                resp.insert("call_us".into(), json!(t_call.elapsed().as_micros() as u64));
                resp.insert("stdout".into(), json!(inst.out.take()));
                result_json(&mut inst.koto, result, &mut resp);
            }
            "inst_call" => {
                // calls an exported function with JSON arguments
                let f = req["fn"].as_str().unwrap_or("");
                let args: Vec<KValue> = req["args"].as_array().map(|a| a.iter().map(exec::json_to_kvalue).collect()).unwrap_or_default();
                let as_tuple = req.get("as_tuple").and_then(|x| x.as_bool()).unwrap_or(false);
                let result = panics::guarded(|| {
                    if as_tuple {
                        inst.koto.call_exported_function(f, CallArgs::AsTuple(&args))
                    } else {
                        inst.koto.call_exported_function(f, args.as_slice())
                    }
                });
                resp.insert("stdout".into(), json!(inst.out.take()));
                result_json(&mut inst.koto, result, &mut resp);
            }
            "inst_call_native" => {
                // calls a function of the prelude, e.g. "number.abs", through Koto::call_function
                let path = req["fn"].as_str().unwrap_or("");
                let args: Vec<KValue> = req["args"].as_array().map(|a| a.iter().map(exec::json_to_kvalue).collect()).unwrap_or_default();
                let mut parts = path.split('.');
                let first = parts.next().unwrap_or("");
                let mut value = inst.koto.prelude().get(first);
                for part in parts {
                    value = match value {
                        Some(KValue::Map(m)) => m.get(part),
                        _ => None,
                    };
                }
                match value {
                    Some(f) => {
                        let result = panics::guarded(|| inst.koto.call_function(f, args.as_slice()));
                        resp.insert("stdout".into(), json!(inst.out.take()));
                        result_json(&mut inst.koto, result, &mut resp);
                    }
                    None => {
                        resp.insert("harness_error".into(), json!(format!("no prelude function {path}")));
                    }
                }
            }
            "inst_tostr" => {
                let key = req["export"].as_str().unwrap_or("");
                match inst.koto.exports().get(key) {
                    Some(v) => {
                        let r = panics::guarded(|| inst.koto.value_to_string(v.clone()));
                        match r {
                            Ok(Ok(s)) => {
                                resp.insert("outcome".into(), json!("ok"));
                                resp.insert("result".into(), json!(s));
                            }
                            Ok(Err(e)) => {
                                resp.insert("outcome".into(), json!("runtime_error"));
                                resp.insert("error".into(), json!(panics::guarded(|| e.to_string()).unwrap_or_default()));
                            }
                            Err(p) => {
                                resp.insert("outcome".into(), json!("panic"));
                                resp.insert("panic".into(), panics::to_json(&p));
                            }
                        }
                    }
                    None => {
                        resp.insert("outcome".into(), json!("missing"));
                    }
                }
            }
            "inst_exports" => {
                let entries: Vec<(String, KValue)> = inst.koto.exports().data().iter().map(|(k, v)| (k.to_string(), v.clone())).collect();
                let mut out = Vec::new();
                for (k, v) in entries {
                    let shown = match panics::guarded(|| inst.koto.value_to_string(v.clone())) {
                        Ok(Ok(s)) => s,
                        Ok(Err(_)) => "<display error>".into(),
                        Err(_) => "<display panic>".into(),
                    };
                    out.push(json!([k, shown]));
                }
                resp.insert("outcome".into(), json!("ok"));
                resp.insert("exports".into(), Value::Array(out));
            }
            other => {
                resp.insert("harness_error".into(), json!(format!("unknown instance op {other}")));
            }
        }
        finish(inst, resp)
    })
}
