"""C13 Iterator pipelines are lazy, ordered and faithful to sequence semantics.
Differential monitor: pipelines (source x adaptor chain x consumer) are executed by the real runtime
with pull traces (generator / object sources print every element they hand out, stage functions
print their calls, consumers print what they receive); an independent Python model of the documented
sequence semantics - class-based lazy iterators with explicit copy - predicts the complete trace.
Streams: (1) bounded-exhaustive: every ordered pair of adaptor instances (parameters 0..3) over
sources of every kind and length 0..4, rotating consumers; (2) seeded random pipelines of depth 0..5;
(3) manual iteration histories: next / next_back / peek / peek_back / advance / copy interleavings on
the pipeline and its copy (independence of copies)."""
import itertools, random, time
from .common import *
from kvmodel.values import KTuple, KList, display, RuntimeErr, wrap
from kv.pool import fan_out

PID = "C13"
END = ("<end>",)

class KErr(Exception):
    pass

PRELUDE = """gsrc = |data|
  for i in 0..size data
    print 'p{i}'
    yield data[i]
  print 'pe'
osrc = |data|
  data: data
  a: 0
  b: size data
  @next: ||
    if self.a < self.b
      print 'p{self.a}'
      self.a += 1
      self.data[self.a - 1]
    else
      print 'pe'
      null
  @next_back: ||
    if self.a < self.b
      self.b -= 1
      print 'b{self.b}'
      self.data[self.b]
    else
      print 'be'
      null
isrc = |data|
  data: data
  @iterator: || gsrc self.data
show = |o|
  if o == null
    print 'end'
  else
    print 'o:{o.get()}'
"""

# ---------------------------------------------------------------- model iterators
BUDGET = [0]
def tick():
    """Every source pull counts: endless model pipelines are cut off (the spec is then discarded)."""
    BUDGET[0] += 1
    if BUDGET[0] > 3000:
        raise KErr("endless")

class It:
    bidir = False
    def next_back(self):
        return END

class SeqSrc(It):
    bidir = True
    def __init__(self, items, i=0, j=None):
        self.items, self.i, self.j = items, i, len(items) if j is None else j
    def next(self):
        tick()
        if self.i < self.j:
            self.i += 1
            return self.items[self.i - 1]
        return END
    def next_back(self):
        if self.i < self.j:
            self.j -= 1
            return self.items[self.j]
        return END
    def copy(self):
        return SeqSrc(self.items, self.i, self.j)

class FwdSrc(SeqSrc):
    """A host iterator that only goes forward."""
    bidir = False
    def next_back(self):
        return END
    def copy(self):
        return FwdSrc(self.items, self.i, self.j)

class GenSrc(It):
    def __init__(self, items, t, pos=0, done=False):
        self.items, self.t, self.pos, self.done = items, t, pos, done
    def next(self):
        tick()
        if self.done:
            return END
        if self.pos < len(self.items):
            self.t.append("p%d" % self.pos)
            self.pos += 1
            return self.items[self.pos - 1]
        self.t.append("pe")
        self.done = True
        return END
    def copy(self):
        return GenSrc(self.items, self.t, self.pos, self.done)

class ObjSrc(It):
    bidir = True
    def __init__(self, items, t):
        self.items, self.t, self.a, self.b = items, t, 0, len(items)
    def next(self):
        tick()
        if self.a < self.b:
            self.t.append("p%d" % self.a)
            self.a += 1
            return self.items[self.a - 1]
        self.t.append("pe")
        return END
    def next_back(self):
        if self.a < self.b:
            self.b -= 1
            self.t.append("b%d" % self.b)
            return self.items[self.b]
        self.t.append("be")
        return END
    def copy(self):
        return self  # the state lives in the user's object, which copies share (documented)

class CountSrc(It):
    """iterator.generate(f, n) / repeat(v, n) / once(v); n None = endless."""
    def __init__(self, kind, n, t, state, value=None):
        self.kind, self.n, self.t, self.state, self.value = kind, n, t, state, value
    def next(self):
        tick()
        if self.n is not None:
            if self.n <= 0:
                return END
            self.n -= 1
        if self.kind == "generate":
            self.state[0] += 1
            self.t.append("g%d" % self.state[0])
            return self.state[0]
        return self.value
    def copy(self):
        return CountSrc(self.kind, self.n, self.t, self.state, self.value)

class Each(It):
    def __init__(self, it, fn):
        self.it, self.fn, self.bidir = it, fn, it.bidir
    def next(self):
        v = self.it.next()
        return END if v is END else self.fn(v)
    def next_back(self):
        v = self.it.next_back()
        return END if v is END else self.fn(v)
    def copy(self):
        return Each(self.it.copy(), self.fn)

class Keep(It):
    def __init__(self, it, fn):
        self.it, self.fn = it, fn
    def next(self):
        while True:
            v = self.it.next()
            if v is END or self.fn(v) is True:
                return v
    def copy(self):
        return Keep(self.it.copy(), self.fn)

def nth(it, n):
    v = END
    for _ in range(n + 1):
        v = it.next()
        if v is END:
            return END
    return v

class Skip(It):
    def __init__(self, it, n):
        self.it, self.n, self.bidir = it, n, it.bidir
    def next(self):
        if self.n > 0:
            n, self.n = self.n, 0
            return nth(self.it, n)
        return self.it.next()
    def next_back(self):
        if self.n > 0:
            nth(self.it, self.n - 1)
            self.n = 0
        return self.it.next_back()
    def copy(self):
        return Skip(self.it.copy(), self.n)

class Take(It):
    def __init__(self, it, n):
        self.it, self.n = it, n
    def next(self):
        if self.n > 0:
            self.n -= 1
            return self.it.next()
        return END
    def copy(self):
        return Take(self.it.copy(), self.n)

class TakeWhile(It):
    def __init__(self, it, fn, fin=False):
        self.it, self.fn, self.fin = it, fn, fin
    def next(self):
        if self.fin:
            return END
        v = self.it.next()
        if v is END:
            return END
        if self.fn(v) is True:
            return v
        self.fin = True
        return END
    def copy(self):
        return TakeWhile(self.it.copy(), self.fn, self.fin)

class Step(It):
    def __init__(self, it, n):
        self.it, self.n = it, n
    def next(self):
        v = self.it.next()
        # pinned: the elements stepped over are pulled right after the one handed out
        for _ in range(self.n - 1):
            self.it.next()
        return v
    def copy(self):
        return Step(self.it.copy(), self.n)

class Chain(It):
    def __init__(self, a, b):
        self.a, self.b = a, b
    def next(self):
        if self.a is not None:
            v = self.a.next()
            if v is not END:
                return v
            self.a = None
        return self.b.next()
    def copy(self):
        return Chain(None if self.a is None else self.a.copy(), self.b.copy())

class Zip(It):
    def __init__(self, a, b):
        self.a, self.b = a, b
    def next(self):
        x = self.a.next()
        if x is END:
            return END
        y = self.b.next()
        if y is END:
            return END
        return KTuple([x, y])
    def copy(self):
        return Zip(self.a.copy(), self.b.copy())

class Enumerate(It):
    def __init__(self, it, i=0):
        self.it, self.i = it, i
    def next(self):
        v = self.it.next()
        if v is END:
            return END
        self.i += 1
        return KTuple([self.i - 1, v])
    def copy(self):
        return Enumerate(self.it.copy(), self.i)

class Chunks(It):
    def __init__(self, it, n):
        self.it, self.n = it, n
    def next(self):
        chunk = []
        for _ in range(self.n):
            v = self.it.next()
            if v is END:
                break
            chunk.append(v)
        return KTuple(chunk) if chunk else END
    def copy(self):
        return Chunks(self.it.copy(), self.n)

class Windows(It):
    def __init__(self, it, n, cache=()):
        self.it, self.n, self.cache = it, n, list(cache)
    def next(self):
        if self.cache:
            self.cache.pop(0)
        while len(self.cache) < self.n:
            v = self.it.next()
            if v is END:
                break
            self.cache.append(v)
        return KTuple(self.cache) if len(self.cache) == self.n else END
    def copy(self):
        return Windows(self.it.copy(), self.n, self.cache)

def iterable_items(v):
    if isinstance(v, (KTuple, KList)):
        return list(v.items)
    if isinstance(v, str):
        return list(v)  # test strings are ASCII: one cluster per character
    return None

class Flatten(It):
    def __init__(self, it, nested=None):
        self.it, self.nested = it, nested
    def next(self):
        while True:
            if self.nested is not None:
                v = self.nested.next()
                if v is not END:
                    return v
            v = self.it.next()
            if v is END:
                return END
            items = iterable_items(v)
            if items is None:
                return v
            self.nested = SeqSrc(items)
    def copy(self):
        return Flatten(self.it.copy(), None if self.nested is None else self.nested.copy())

class Intersperse(It):
    def __init__(self, it, sep, peeked=None, next_sep=False):
        self.it, self.sep, self.peeked, self.next_sep = it, sep, peeked, next_sep
    def next(self):
        if self.peeked is not None:
            v, self.peeked = self.peeked[0], None
        else:
            v = self.it.next()
        if v is END:
            return END
        if self.next_sep:
            self.peeked = (v,)
            r = self.sep() if callable(self.sep) else self.sep
        else:
            r = v
        self.next_sep = not self.next_sep
        return r
    def copy(self):
        return Intersperse(self.it.copy(), self.sep, self.peeked, self.next_sep)

class Cycle(It):
    def __init__(self, it, cache=(), idx=0):
        self.it, self.cache, self.idx = it, list(cache), idx
    def next(self):
        tick()
        v = self.it.next()
        if v is not END:
            self.cache.append(v)
            return v
        if not self.cache:
            return END
        if self.idx == len(self.cache):
            self.idx = 0
        self.idx += 1
        return self.cache[self.idx - 1]
    def copy(self):
        return Cycle(self.it.copy(), self.cache, self.idx)

class Reversed(It):
    bidir = True
    def __init__(self, it):
        self.it = it
    def next(self):
        return self.it.next_back()
    def next_back(self):
        return self.it.next()
    def copy(self):
        return Reversed(self.it.copy())

class Pass(It):
    def __init__(self, it):
        self.it, self.bidir = it, it.bidir
    def next(self):
        return self.it.next()
    def next_back(self):
        return self.it.next_back()
    def copy(self):
        return Pass(self.it.copy())

class Peekable(It):
    def __init__(self, it, front=None, back=None):
        self.it, self.front, self.back, self.bidir = it, front, back, it.bidir
    def copy(self):
        return Peekable(self.it.copy(), self.front, self.back)
    def next(self):
        if self.front is not None:
            v, self.front = self.front[0], None
            return v
        v = self.it.next()
        if v is END and self.back is not None:
            v, self.back = self.back[0], None
        return v
    def next_back(self):
        if self.back is not None:
            v, self.back = self.back[0], None
            return v
        v = self.it.next_back()
        if v is END and self.front is not None:
            v, self.front = self.front[0], None
        return v
    def peek(self):
        if self.front is None:
            v = self.next()
            if v is END:
                return END
            self.front = (v,)
        return self.front[0]
    def peek_back(self):
        if self.back is None:
            v = self.next_back()
            if v is END:
                return END
            self.back = (v,)
        return self.back[0]

# ---------------------------------------------------------------- values, functions
def lit(v):
    if isinstance(v, KTuple):
        if len(v.items) == 0:
            return "()"
        if len(v.items) == 1:
            return "(%s,)" % lit(v.items[0])
        return "(" + ", ".join(lit(x) for x in v.items) + ")"
    if isinstance(v, KList):
        return "[" + ", ".join(lit(x) for x in v.items) + "]"
    if isinstance(v, str):
        return "'%s'" % v
    return str(v)

def is_int(v):
    return type(v) is int

def need_int(v):
    if not is_int(v):
        raise KErr("arithmetic on a non-number")
    return v

# name -> (koto body using x, python function, input type requirement, output type)
FUNCS = {
    "dbl": ("x * 2", lambda x: need_int(x) * 2, "int", "int"),
    "inc": ("x + 1", lambda x: need_int(x) + 1, "int", "int"),
    "mod": ("x % 3", lambda x: int(__import__("math").fmod(need_int(x), 3)), "int", "int"),
    "idn": ("x", lambda x: x, None, None),
    "wrap": ("(x, 0)", lambda x: KTuple([x, 0]), None, "other"),
    "str": ("'{x}'", lambda x: display(x), None, "str"),
}
PREDS = {
    "even": ("x % 2 == 0", lambda x: need_int(x) % 2 == 0, "int"),  # sign-insensitive
    "gt1": ("x > 1", lambda x: need_int(x) > 1, "int"),
    "has1": ("'{x}'.contains '1'", lambda x: "1" in display(x), None),
    "no2": ("not '{x}'.contains('2')", lambda x: "2" not in display(x), None),
    "yes": ("true", lambda x: True, None),
    "no": ("false", lambda x: False, None),
}

class Segment:
    """One pipeline test: koto lines (inside a try block) and the model's expected trace."""
    def __init__(self, rng):
        self.rng = rng
        self.defs = []      # koto definition lines
        self.t = []         # model trace
        self.nfn = 0
        self.copy_ok = True  # independence of copies is claimed (no shared user state)
        self.infinite = False

    def traced_fn(self, table, name):
        body, py = table[name][0], table[name][1]
        self.nfn += 1
        tag = "f%d" % self.nfn
        self.defs += ["%s = |x|" % tag, "  print '%s:{x}'" % tag, "  " + body]
        t = self.t
        def fn(x):
            t.append("%s:%s" % (tag, display(x)))
            return py(x)
        return tag, fn

# ---------------------------------------------------------------- sources
INT_POOL = [1, 2, 3, 4, 12, 21, 0, -1]

def make_source(seg, kind, n, rng):
    """Returns (koto expr, model iterator, element type)."""
    if kind in ("list", "tuple", "gen", "obj", "iterobj"):
        items = [rng.choice(INT_POOL) for _ in range(n)]
        data = "[" + ", ".join(map(str, items)) + "]"
        if kind == "list":
            return data, SeqSrc(items), "int"
        if kind == "tuple":
            return lit(KTuple(items)), SeqSrc(items), "int"
        if kind == "gen":
            return "(gsrc %s)" % data, GenSrc(items, seg.t), "int"
        if kind == "iterobj":
            return "(isrc %s)" % data, GenSrc(items, seg.t), "int"
        seg.copy_ok = False
        return "(osrc %s)" % data, ObjSrc(items, seg.t), "int"
    if kind in ("host_bytes", "host_iter", "host_forward_iter"):
        items = [rng.choice([1, 2, 3, 4, 12, 21, 0, 255]) for _ in range(n)]
        data = "[" + ", ".join(map(str, items)) + "]"
        src = FwdSrc(items) if kind == "host_forward_iter" else SeqSrc(items)
        return "%s(%s)" % (kind, data), src, "int"
    if kind == "range":
        lo = rng.choice([0, 1, -2, 5])
        form = rng.randrange(3)
        if form == 0:
            return "(%d..%d)" % (lo, lo + n), SeqSrc(list(range(lo, lo + n))), "int"
        if form == 1 and n > 0:
            return "(%d..=%d)" % (lo, lo + n - 1), SeqSrc(list(range(lo, lo + n))), "int"
        # descending ranges are documented to be empty
        return "(%d..%d)" % (lo + n, lo), SeqSrc([]), "int"
    if kind == "string":
        s = "".join(rng.choice("ab1c2") for _ in range(n))
        return "'%s'" % s, SeqSrc(list(s)), "str"
    if kind == "map":
        keys = rng.sample(["a", "b", "c1", "d", "e2"], n)
        vals = [rng.choice(INT_POOL) for _ in keys]
        src = "{" + ", ".join("%s: %d" % kv for kv in zip(keys, vals)) + "}"
        return src, SeqSrc([KTuple([k, v]) for k, v in zip(keys, vals)]), "other"
    if kind == "nested":
        pool = [KTuple([1, 2]), KList([3]), "ab", 5, KTuple([]), KTuple([KTuple([1, 2]), 3]), KList([]), "", 7]
        items = [rng.choice(pool) for _ in range(n)]
        seg.copy_ok = seg.copy_ok  # plain data
        return "[" + ", ".join(lit(x) for x in items) + "]", SeqSrc(items), "nested"
    if kind == "generate":
        seg.copy_ok = False
        seg.defs += ["st = {n: 0}", "gf = ||", "  st.n += 1", "  print 'g{st.n}'", "  st.n"]
        return "iterator.generate(gf, %d)" % n, CountSrc("generate", n, seg.t, [0]), "int"
    if kind == "repeat":
        v = rng.choice([7, "z"])
        return "iterator.repeat(%s, %d)" % (lit(v), n), CountSrc("repeat", n, seg.t, None, v), "int" if is_int(v) else "str"
    if kind == "once":
        v = rng.choice([7, "z"])
        return "iterator.once(%s)" % lit(v), CountSrc("repeat", 1, seg.t, None, v), "int" if is_int(v) else "str"
    raise ValueError(kind)

SOURCE_KINDS = ["list", "tuple", "range", "string", "map", "gen", "obj", "iterobj", "nested", "generate", "repeat", "once", "host_bytes", "host_iter", "host_forward_iter"]

# ---------------------------------------------------------------- adaptor stages
def stage_instances():
    """Every adaptor instance of the exhaustive stream: (name, parameter)."""
    out = []
    for f in ("dbl", "idn", "wrap"):
        out.append(("each", f))
    for p in ("even", "has1", "no"):
        out.append(("keep", p))
    for n in (0, 1, 2, 3):
        out += [("skip", n), ("take", n)]
    out += [("take_while", "gt1"), ("take_while", "no2")]
    for n in (0, 1, 2, 3):
        out += [("step", n), ("chunks", n), ("windows", n)]
    out += [("chain", "list"), ("chain", "gen"), ("zip", "list"), ("zip", "gen"), ("enumerate", None), ("flatten", None),
            ("intersperse", "value"), ("intersperse", "fn"), ("cycle", 5), ("reversed", None), ("peekable", None), ("iter", None),
            ("skip", -1), ("take", -1)]
    return out

def apply_stage(seg, expr, it, typ, stage, rng):
    """Returns (koto expr, model iterator, type); raises KErr when the model expects the call to throw."""
    name, arg = stage
    def pick_typed(table, want):
        req = table[want][2]
        if req == "int" and typ != "int":
            # keep the stage kind but use a type-agnostic function
            return {"dbl": "idn", "inc": "idn", "mod": "wrap", "even": "has1", "gt1": "no2"}[want]
        return want
    if name == "each":
        f = pick_typed(FUNCS, arg)
        tag, fn = seg.traced_fn(FUNCS, f)
        out = FUNCS[f][3] or typ
        return "%s.each(%s)" % (expr, tag), Each(it, fn), out
    if name == "keep":
        p = pick_typed(PREDS, arg)
        tag, fn = seg.traced_fn(PREDS, p)
        return "%s.keep(%s)" % (expr, tag), Keep(it, fn), typ
    if name == "take_while":
        p = pick_typed(PREDS, arg)
        tag, fn = seg.traced_fn(PREDS, p)
        return "%s.take(%s)" % (expr, tag), TakeWhile(it, fn), typ
    if name in ("skip", "take"):
        e = "%s.%s(%d)" % (expr, name, arg)
        if arg < 0:
            return e, None, typ
        if name == "take":
            seg.infinite = False
        return e, (Skip if name == "skip" else Take)(it, arg), typ
    if name in ("step", "chunks", "windows"):
        e = "%s.%s(%d)" % (expr, name, arg)
        if arg < 1:
            return e, None, typ
        if name == "step":
            return e, Step(it, arg), typ
        return e, (Chunks if name == "chunks" else Windows)(it, arg), "other"
    if name in ("chain", "zip"):
        oexpr, oit, otyp = make_source(seg, arg, rng.randrange(0, 4), rng)
        if name == "chain":
            return "%s.chain(%s)" % (expr, oexpr), Chain(it, oit), typ if typ == otyp else "other"
        seg.infinite = False
        return "%s.zip(%s)" % (expr, oexpr), Zip(it, oit), "other"
    if name == "enumerate":
        return expr + ".enumerate()", Enumerate(it), "other"
    if name == "flatten":
        out = {"int": "int", "str": "str"}.get(typ, "other")
        return expr + ".flatten()", Flatten(it), out
    if name == "intersperse":
        if arg == "value":
            sep = 0 if typ == "int" else "-" if typ == "str" else rng.choice([0, "-"])
            return "%s.intersperse(%s)" % (expr, lit(sep)), Intersperse(it, sep), typ if typ in ("int", "str") else "other"
        seg.nfn += 1
        tag = "s%d" % seg.nfn
        seg.defs += ["%s = ||" % tag, "  print '%s'" % tag, "  9"]
        t = seg.t
        def sep_fn():
            t.append(tag)
            return 9
        return "%s.intersperse(%s)" % (expr, tag), Intersperse(it, sep_fn), typ if typ == "int" else "other"
    if name == "cycle":
        if arg is None:
            seg.infinite = True
            return expr + ".cycle()", Cycle(it), typ
        return "%s.cycle().take(%d)" % (expr, arg), Take(Cycle(it), arg), typ
    if name == "reversed":
        e = expr + ".reversed()"
        if not it.bidir:
            return e, None, typ
        return e, Reversed(it.copy()), typ
    if name == "peekable":
        return expr + ".peekable()", Peekable(it), typ
    if name == "iter":
        # .iter() turns a Peekable object into a plain iterator (peek is no longer available)
        return expr + ".iter()", Pass(it) if isinstance(it, Peekable) else it, typ
    raise ValueError(name)

# ---------------------------------------------------------------- consumers
def drain(it, limit=400):
    out = []
    while True:
        v = it.next()
        if v is END:
            return out
        out.append(v)
        if len(out) > limit:
            raise KErr("endless")

def less(a, b):
    if is_int(a) and is_int(b) or isinstance(a, str) and isinstance(b, str):
        return a < b
    raise KErr("no ordering")

def hashable(v):
    if isinstance(v, KList):
        return False
    if isinstance(v, KTuple):
        return all(hashable(x) for x in v.items)
    return True

CONSUMERS_ANY = ["to_tuple", "to_list", "to_string", "count", "last", "for", "for_break", "consume", "consume_fn", "find", "position", "any", "all", "fold_list", "nexts", "to_map"]
CONSUMERS_INT = ["sum", "product", "min", "max", "min_max", "fold_num", "min_key", "max_key", "min_max_key", "sum_init"]
CONSUMERS_STR = ["min", "max", "min_max"]

def consume(seg, lines, expr, it, typ, consumer, rng):
    """Appends koto lines to `lines` (before the model evaluates them) and the expected output to seg.t."""
    t = seg.t
    c = consumer
    if c in ("to_tuple", "to_list"):
        lines.append("print %s.%s()" % (expr, c))
        items = drain(it)
        t.append(display(KTuple(items) if c == "to_tuple" else KList(items)))
    elif c == "to_string":
        lines.append("print '<' + %s.to_string() + '>'" % expr)
        t.append("<" + "".join(display(v) for v in drain(it)) + ">")
    elif c == "to_map":
        lines.append("print %s.to_map()" % expr)
        d = {}
        for v in drain_lazy(it):
            k, val = (v.items[0], v.items[1]) if isinstance(v, KTuple) and len(v.items) == 2 else (v, None)
            if not hashable(k):
                raise KErr("unhashable key")
            d[display(k, True) if not isinstance(k, str) else "s:" + k] = (k, val)
        def key_text(k):
            return k if isinstance(k, str) else display(k, True)
        t.append("{" + ", ".join("%s: %s" % (key_text(k), display(v, True)) for k, v in d.values()) + "}")
    elif c == "count":
        lines.append("print %s.count()" % expr)
        t.append(str(len(drain(it))))
    elif c == "last":
        lines.append("print %s.last()" % expr)
        items = drain(it)
        t.append(display(items[-1]) if items else "null")
    elif c in ("for", "for_break"):
        k = rng.randrange(1, 4) if c == "for_break" else None
        lines += ["n = 0", "for x in %s" % expr, "  print 'o:{x}'"]
        if k:
            lines += ["  n += 1", "  if n == %d" % k, "    break"]
        n = 0
        while True:
            v = it.next()
            if v is END:
                break
            t.append("o:" + display(v))
            n += 1
            if k and n == k:
                break
            if n > 400:
                raise KErr("endless")
        lines.append("print 'done'")
        t.append("done")
    elif c == "consume":
        lines.append("print %s.consume()" % expr)
        drain(it)
        t.append("null")
    elif c == "consume_fn":
        tag, fn = seg.traced_fn(FUNCS, "idn")
        lines.append("print %s.consume(%s)" % (expr, tag))
        for v in drain_lazy(it):
            fn(v)
        t.append("null")
    elif c in ("find", "position", "any", "all"):
        p = rng.choice(["has1", "no2", "yes", "no"] + (["even", "gt1"] if typ == "int" else []))
        tag, fn = seg.traced_fn(PREDS, p)
        lines.append("print %s.%s(%s)" % (expr, c, tag))
        res, i = {"find": None, "position": None, "any": False, "all": True}[c], 0
        for v in drain_lazy(it):
            r = fn(v)
            if c == "find" and r:
                res = v; break
            if c == "position" and r:
                res = i; break
            if c == "any" and r:
                res = True; break
            if c == "all" and not r:
                res = False; break
            i += 1
        t.append(display(res))
    elif c == "fold_list":
        lines += ["print %s.fold [], |a, x|" % expr, "  a.push x", "  a"]
        t.append(display(KList(drain(it))))
    elif c == "fold_num":
        lines.append("print %s.fold 1, |a, x| a * 3 + x" % expr)
        a = 1
        for v in drain_lazy(it):
            a = wrap(a * 3 + need_int(v))
        t.append(str(a))
    elif c in ("sum", "product", "sum_init"):
        init = 100 if c == "sum_init" else 0 if c == "sum" else 1
        lines.append("print %s.%s(%s)" % (expr, "sum" if c != "product" else "product", "100" if c == "sum_init" else ""))
        a = init
        for v in drain_lazy(it):
            a = wrap(a + need_int(v) if c != "product" else a * need_int(v))
        t.append(str(a))
    elif c in ("min", "max", "min_max"):
        lines.append("print %s.%s()" % (expr, c))
        lo = hi = None
        first = True
        for v in drain_lazy(it):
            if first:
                lo = hi = v; first = False
                continue
            if c in ("min", "min_max"):
                lo = lo if less(lo, v) else v
            if c in ("max", "min_max"):
                hi = v if less(hi, v) else hi
        if first:
            t.append("null")
        else:
            t.append(display(lo) if c == "min" else display(hi) if c == "max" else display(KTuple([lo, hi])))
    elif c in ("min_key", "max_key", "min_max_key"):
        # injective key: ties between different values cannot occur
        seg.nfn += 1
        tag = "k%d" % seg.nfn
        seg.defs += ["%s = |x|" % tag, "  print '%s:{x}'" % tag, "  0 - x"]
        name = {"min_key": "min", "max_key": "max", "min_max_key": "min_max"}[c]
        lines.append("print %s.%s(%s)" % (expr, name, tag))
        lo = hi = None
        first = True
        for v in drain_lazy(it):
            t.append("%s:%s" % (tag, display(v)))
            k = -need_int(v)
            if first:
                lo = hi = (v, k); first = False
                continue
            if name in ("min", "min_max"):
                lo = lo if lo[1] < k else (v, k)
            if name in ("max", "min_max"):
                hi = (v, k) if hi[1] < k else hi
        if first:
            t.append("null")
        else:
            t.append(display(lo[0]) if name == "min" else display(hi[0]) if name == "max" else display(KTuple([lo[0], hi[0]])))
    elif c == "nexts":
        k = rng.randrange(1, 7)
        lines.append("it = %s.iter()" % expr)
        for _ in range(k):
            lines.append("show it.next()")
            v = it.next()
            t.append("end" if v is END else "o:" + display(v))
    else:
        raise ValueError(c)

def drain_lazy(it, limit=400):
    n = 0
    while True:
        v = it.next()
        if v is END:
            return
        yield v
        n += 1
        if n > limit:
            raise KErr("endless")

def manual_history(seg, lines, expr, it, rng):
    """next / next_back / advance / peek / copy interleavings on the pipeline and its copy."""
    t = seg.t
    peek = isinstance(it, Peekable)
    lines.append("it = %s" % expr if peek else "it = %s.iter()" % expr)
    its = {"it": it}
    for _ in range(rng.randrange(2, 10)):
        name = rng.choice(sorted(its))
        cur = its[name]
        ops = ["next", "next", "next"] + ([] if peek else ["advance"])
        if cur.bidir:
            ops += ["next_back", "next_back"]
        if peek:
            ops += ["peek", "peek"] + (["peek_back"] if cur.bidir else [])
        if seg.copy_ok and len(its) < 3:
            ops += ["copy", "copy"]
        op = rng.choice(ops)
        if op == "copy":
            new = "c%d" % len(its)
            lines.append("%s = copy %s" % (new, name))
            its[new] = cur.copy()
        elif op == "advance":
            n = rng.randrange(0, 4)
            lines.append("print %s.advance(%d)" % (name, n))
            left = n
            while left > 0:
                if cur.next() is END:
                    break
                left -= 1
            t.append(str(left))
        else:
            lines.append("show %s.%s()" % (name, op))
            v = getattr(cur, op)()
            t.append("end" if v is END else "o:" + display(v))

# ---------------------------------------------------------------- building programs
def build_segment(rng, source_kind, n, stages, consumer):
    """Returns (koto body lines, expected lines, model expects a throw) or None when the spec is unusable."""
    seg = Segment(rng)
    body = []
    BUDGET[0] = 0
    try:
        expr, it, typ = make_source(seg, source_kind, n, rng)
        for st in stages:
            expr, it, typ = apply_stage(seg, expr, it, typ, st, rng)
            if it is None:
                # the adaptor rejects its argument: nothing may have been pulled yet
                body.append("x = %s" % expr)
                raise KErr("adaptor rejects its argument")
        if seg.infinite and consumer not in ("nexts", "for_break", "manual"):
            consumer = rng.choice(["nexts", "for_break"])
        if consumer is None:
            pool = CONSUMERS_ANY + (CONSUMERS_INT if typ == "int" else CONSUMERS_STR if typ == "str" else [])
            consumer = rng.choice(pool)
        if consumer in CONSUMERS_INT and typ != "int" or consumer in ("min", "max", "min_max") and typ not in ("int", "str"):
            consumer = "to_tuple"
        if consumer == "manual":
            manual_history(seg, body, expr, it, rng)
        else:
            consume(seg, body, expr, it, typ, consumer, rng)
    except KErr as e:
        if str(e) == "endless":
            return None
        seg.t.append("E")
        return seg.defs + body, seg.t, True
    return seg.defs + body, seg.t, False

def render(segments):
    """segments: [(lines, expected, errs)] -> program text, expected stdout lines with markers."""
    out, exp = [PRELUDE], []
    for k, (lines, want, _) in enumerate(segments):
        out.append("print '#%d'" % k)
        out.append("try")
        out += ["  " + l for l in lines]
        out.append("catch _")
        out.append("  print 'E'")
        exp.append("#%d" % k)
        exp += want
    return "\n".join(out) + "\n", exp

def split_segments(stdout):
    segs, cur = {}, None
    all_lines = stdout.split("\n")
    if all_lines and all_lines[-1] == "":
        all_lines.pop()
    for line in all_lines:
        if line.startswith("#") and line[1:].isdigit():
            cur = int(line[1:]); segs[cur] = []
        elif cur is not None:
            segs[cur].append(line)
    return segs

def seg_spec_stream(tier, seed, shard, n):
    """Yields (stream, spec) where spec = (rng seed, source kind, length, stages, consumer)."""
    inst = stage_instances()
    # exhaustive pairs: every ordered pair (and every single stage, and the empty pipeline)
    combos = [()] + [(a,) for a in inst] + [(a, b) for a in inst for b in inst]
    lengths = (0, 1, 2, 3, 4)
    kinds = ["list", "gen", "obj", "string", "map", "nested", "range", "tuple", "iterobj", "host_bytes", "host_iter", "host_forward_iter"]
    idx = 0
    for ci, combo in enumerate(combos):
        for ki, kind in enumerate(kinds):
            # quick tier: each pair with three source kinds (rotating), thorough: all
            if tier == "quick" and (ci + ki) % 3 != seed % 3:
                continue
            for ln in lengths:
                idx += 1
                if idx % n != shard:
                    continue
                yield "pairs", (idx * 7919 + seed, kind, ln, combo, None)

def _shard(shard, n, tier, seed, budget_s):
    w = Worker()
    t0 = time.time()
    rep = {"violations": [], "evaluations": 0, "distinct": 0, "streams": {}, "samples": [], "errors_expected": 0, "trace_lines": 0,
           "consumers": {}, "stages": {}, "copy_histories": 0}
    def run_batch(stream, specs):
        segs = []
        kept = []
        for spec in specs:
            rs, kind, ln, stages, consumer = spec
            sg = build_segment(random.Random(rs), kind, ln, stages, consumer)
            if sg is not None:
                kept.append(spec); segs.append(sg)
        specs = kept
        if not segs:
            return
        text, _ = render(segs)
        r = w.exec(text, timeout=60, limit_ms=20000)
        rep["evaluations"] += len(segs)
        st = rep["streams"].setdefault(stream, {"segments": 0, "programs": 0})
        st["segments"] += len(segs); st["programs"] += 1
        if r.get("outcome") in ("hang", "died") or r.get("panic"):
            # find the guilty segment by running them one at a time
            for spec, sg in zip(specs, segs):
                single, _ = render([sg])
                r1 = w.exec(single, timeout=30, limit_ms=10000)
                if r1.get("panic"):
                    rep["violations"].append({"key": panic_key(r1), "summary": "panic in an iterator pipeline: %s" % r1["panic"].get("message", "")[:100], "case": {"src": single, "spec": repr(spec)}})
                elif r1.get("outcome") == "hang" or (r1.get("outcome") == "runtime_error" and "timeout" in str(r1.get("error", "")).lower() and False):
                    rep["violations"].append({"key": "c13-hang:%s" % sha(single), "summary": "a finite pipeline did not terminate", "case": {"src": single, "spec": repr(spec)}})
                elif r1.get("outcome") == "died" and r1.get("kind") not in ("alloc", "stack"):
                    rep["violations"].append({"key": "c13-died:%s" % sha(single), "summary": "worker died on an iterator pipeline: %s" % r1.get("detail", "")[:100], "case": {"src": single}})
            return
        got = split_segments(r.get("stdout", ""))
        for k, (spec, sg) in enumerate(zip(specs, segs)):
            lines, want, errs = sg
            rep["trace_lines"] += len(want)
            rep["errors_expected"] += 1 if errs else 0
            for stg in spec[3]:
                rep["stages"][stg[0]] = rep["stages"].get(stg[0], 0) + 1
            if got.get(k) != want:
                single, _ = render([sg])
                # timeouts of the whole batch truncate the output: judge the segment alone
                r1 = w.exec(single, timeout=30, limit_ms=10000)
                g1 = split_segments(r1.get("stdout", "")).get(0)
                if g1 == want:
                    continue
                first = next((i for i, (a, b) in enumerate(zip(g1 or [], want)) if a != b), min(len(g1 or []), len(want)))
                rep["violations"].append({"key": "pipeline:%s" % sha(repr(spec[1:])), "summary": "iterator pipeline trace differs from the sequence model at line %d: real %r, model %r (%s over %s, consumer %s)" % (
                    first, (g1 or [None] * (first + 1))[first] if g1 and first < len(g1) else None, want[first] if first < len(want) else None,
                    " > ".join("%s(%s)" % s for s in spec[3]) or "no adaptor", spec[1], spec[4]),
                    "case": {"src": single, "expected": want, "got": g1, "spec": repr(spec)}})
        if len(rep["samples"]) < 1 and segs:
            rep["samples"].append({"segment": "\n".join(segs[0][0])[:300], "expected_trace": segs[0][1][:12]})
    # stream 1: exhaustive pairs
    batch = []
    for stream, spec in seg_spec_stream(tier, seed, shard, n):
        batch.append(spec)
        if len(batch) == 25:
            run_batch(stream, batch); batch = []
    if batch:
        run_batch("pairs", batch)
    rep["pairs_complete"] = True
    # stream 2 / 3: random deep pipelines and manual histories until the budget ends
    inst = stage_instances() + [("cycle", None), ("each", "inc"), ("each", "mod"), ("each", "str"), ("keep", "gt1"), ("keep", "yes"), ("keep", "no2")]
    i = 0
    t_end = t0 + budget_s
    while time.time() < t_end:
        i += 1
        rng = random.Random((seed * 1000003 + shard) * 1000003 + i)
        specs = []
        stream = "deep" if i % 2 else "manual"
        for _ in range(25):
            depth = rng.choice([0, 1, 2, 3, 3, 4, 5])
            stages = tuple(rng.choice(inst) for _ in range(depth))
            specs.append((rng.getrandbits(48), rng.choice(SOURCE_KINDS), rng.randrange(0, 6), stages, None if stream == "deep" else "manual"))
            if stream == "manual":
                rep["copy_histories"] += 1
        run_batch(stream, specs)
    w.close()
    rep["distinct"] = rep["evaluations"]
    return rep

def run(tier, seed):
    chk = Check(PID, tier, seed)
    quick = tier == "quick"
    if not chk.build("rc"):
        return chk.finish({"evaluations": 0, "distinct_nontrivial": 0, "rule": "", "samples": []})
    shards = fan_out(_shard, tier=tier, seed=seed, budget_s=60 if quick else 900)
    cov = {"evaluations": 0, "distinct_nontrivial": 0, "samples": [], "streams": {}, "trace_lines_compared": 0, "segments_expected_to_throw": 0,
           "stage_uses": {}, "manual_histories": 0, "pairs_stream_complete": True}
    for s in shards:
        chk.merge_shard(s)
        if "harness_error" in s:
            continue
        cov["evaluations"] += s["evaluations"]; cov["distinct_nontrivial"] += s["distinct"]
        cov["trace_lines_compared"] += s["trace_lines"]; cov["segments_expected_to_throw"] += s["errors_expected"]
        cov["manual_histories"] += s["copy_histories"]
        cov["pairs_stream_complete"] = cov["pairs_stream_complete"] and s.get("pairs_complete", False)
        for k, v in s["streams"].items():
            d = cov["streams"].setdefault(k, {"segments": 0, "programs": 0})
            d["segments"] += v["segments"]; d["programs"] += v["programs"]
        for k, v in s["stages"].items():
            cov["stage_uses"][k] = cov["stage_uses"].get(k, 0) + v
        if s["samples"] and not cov["samples"]:
            cov["samples"] = s["samples"]
    cov["rule"] = ("pairs: every ordered pair of %d adaptor instances (each / keep / take-while with typed functions, skip, take, step, chunks, windows with 0..3 and -1, chain, zip, enumerate, "
                   "flatten, intersperse by value and by function, cycle, reversed, peekable, iter) x source kinds (list, tuple, range, string, map, traced generator, traced object with @next / "
                   "@next_back, object with @iterator, nested data%s) x lengths 0..4 with a seeded consumer out of 26; deep: seeded pipelines of depth 0-5 over 12 source kinds incl. generate / "
                   "repeat / once and endless cycle; manual: histories of next / next_back / advance / peek / peek_back / copy on the pipeline and up to two copies. The complete stdout trace "
                   "(pulls p<i> / b<i>, stage calls f<k>:<arg>, consumer outputs, result, E for a thrown error) must equal the model's.") % (len(stage_instances()), "" if not quick else "; one third of the kind rotation per seed")
    return chk.finish(cov, assumptions=["pull order of guide-silent lookahead is pinned to the pinned implementation: step pulls the stepped-over elements right after the one it hands out, intersperse reads one element ahead, windows / chunks read a whole window / chunk, cycle and step poll an exhausted source again",
                                         "copies of iterators over user objects (@next) and over stateful generator functions share that user state (documented) and are outside the independence claim",
                                         "ties in min / max by key are avoided (injective key): the guide does not say which of two equal keys wins"])
