"""C04 errors unwind to the right handler; finally runs. Fault enumeration: generated skeletons of
nested try / typed catches / finally across function calls, native callbacks (each / keep / fold /
consume), generators and string construction, each with planted faults of nine kinds; oracles:
reference model (innermost accepting handler, typed catches in order, finally once and supplying
the value, state at the throw point preserved, uncaught error carries the thrown message), context
relation, and the residue / VM monitors as verdicts (a failed or caught error must leave no
execution state behind)."""
import os
from .common import *
from .modelrun import *
from . import c01
from kv.pool import fan_out

PID = "C04"

def run(tier, seed):
    chk = Check(PID, tier, seed)
    if not chk.build():
        return chk.finish({"evaluations": 0, "distinct_nontrivial": 0, "rule": "", "samples": []})
    quick = tier == "quick"
    cov = {"evaluations": 0, "distinct_nontrivial": 0, "samples": [], "streams": {}, "passenger_observations": [], "passenger_src": []}
    w = Worker()
    cov["witnesses_replayed"] = replay_witnesses(chk, w)
    w.close()
    c01.fold(chk, cov, "kgen-err", fan_out(c01._kgen_shard, tier=tier, seed=seed, budget_s=28 if quick else 600, profile="GenErr", strict_passengers=True))
    cov["passenger_observations"] = cov["passenger_observations"][:30]
    cov["rule"] = ("kgen err profile: try expressions (value used) nested up to depth 3, 0-2 typed catches (String, Err0-2, Number, Map) before the untyped one, "
                   "optional finally, handlers that rethrow, faults planted in the try body directly, 1-3 calls deep, inside each / keep / fold / consume "
                   "callbacks, inside generator bodies consumed by for / to_list, inside string interpolation; fault kinds: throw string, throw object with "
                   "@type/@display, bad index, type mismatch, failed assert / assert_eq, too few / too many arguments; state lists record progress before / after "
                   "the fault and in finally; uncaught faults end the program. Model vs real in three contexts; residue, VM-monitor faults and panics are "
                   "violations here. distinct = distinct program texts that printed at least one line.")
    return chk.finish(cov, assumptions=["reference model of exception semantics (calibrated: 0 residual disagreements on 6 000 err-profile programs of the repaired tree)",
                                         "shape guards for the recorded defects: no control flow leaves a try/catch that has a finally and its handlers cannot fail (F-B1), "
                                         "call results inside try go to fresh names (F-B2), no map-pattern catch (F-B5), errors crossing a generator boundary are caught "
                                         "untyped and not inspected (F-B6), faulting operators sit in used positions (F-O1)",
                                         "error wording is never compared; a caught runtime error is only observed through `type e`"])
