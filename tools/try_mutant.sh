#!/bin/bash
# usage: tools/try_mutant.sh <patch.diff> <check id> [tier]  -- applies a seeded change to /repo, runs the check, restores /repo
set -u
PATCH=$1; CHECK=$2; TIER=${3:-quick}
cd /repo || exit 2
if [ -n "$(git status --porcelain)" ]; then echo "repo not clean"; exit 2; fi
git apply "$PATCH" || { echo "patch does not apply"; exit 2; }
cd /verif && KV_REPLAY_CAP=3 ./check "$CHECK" --tier "$TIER" 2>&1 | tail -4
RC=${PIPESTATUS[0]}
cd /repo && git checkout -- . && git status --porcelain
echo "check exit: $RC"
