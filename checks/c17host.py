"""Host-object part of C17: the Probe KotoObject of the worker (harness/src/probe.rs) implements a
mask-selected subset of the object interface and logs every trait call. The grid below runs every
operation against probes whose relevant methods are absent / returning / reporting unimplemented /
throwing, alone and combined with numbers, Koto objects and second probes on the other side; the
model states the documented rules: left operand first, right-operand fallback for arithmetic when
the left side lacks the operator or reports unimplemented, <= > >= != derived from less / equal by
the interface's defaults, an error for everything that is not implemented."""
import itertools
from .common import *

NEGATE, ADD, ADD_RHS, ADD_ASSIGN, LESS, LE, GT, GE, EQ, NE, INDEX, INDEX_ASSIGN, SIZE, CALL = 0, 1, 7, 13, 19, 20, 21, 22, 23, 24, 25, 26, 27, 28
OPS = [("+", "add"), ("-", "subtract"), ("*", "multiply"), ("/", "divide"), ("%", "remainder"), ("^", "power")]
MODES = ["off", "ret", "unimpl", "throws"]

class P:
    def __init__(self, tag, modes=None, truth=None, cmp_variant=False):
        self.tag, self.modes, self.truth, self.cmp_variant = tag, dict(modes or {}), dict(truth or {}), cmp_variant
    def src(self, name):
        m = {"ret": 0, "unimpl": 0, "throws": 0}
        for bit, mode in self.modes.items():
            if mode != "off":
                m[mode] |= 1 << bit
        t = sum(1 << b for b, v in self.truth.items() if v)
        return "%s = make_probe '%s', %d, %d, %d, %d, %s" % (name, self.tag, m["ret"], m["unimpl"], m["throws"], t, "true" if self.cmp_variant else "false")

class HErr(Exception):
    pass
class Unimpl(Exception):
    pass

def call(log, p, bit, name, operand, value=None):
    mode = p.modes.get(bit, "off")
    if mode == "off":
        raise Unimpl()
    log.append("%s.%s(%s)" % (p.tag, name, operand) if operand is not None else "%s.%s()" % (p.tag, name))
    if mode == "unimpl":
        raise Unimpl()
    if mode == "throws":
        raise HErr()
    return value if value is not None else "%s.%s" % (p.tag, name)

def result_text(v):
    return "Probe(%s)" % v.tag if isinstance(v, P) else show(v)

def show(v):
    if isinstance(v, P): return "probe:" + v.tag
    if isinstance(v, KObj): return "obj:" + v.tag
    return str(v)

KSH = ["ksh = |v|", "  t = try", "    map.get v, 'tag'", "  catch _", "    null", "  if t != null then 'obj:{t}' else koto.type v"]

def ksh(v):
    """What the Koto-side overloads log about self and their operand (no parentheses: those mark host log lines)."""
    if isinstance(v, P): return "Probe"
    if isinstance(v, KObj): return "obj:" + v.tag
    return {int: "Number", str: "String"}.get(type(v), "Null")

class KObj:
    """A Koto object with optional @op / @rop returning, unimplemented or throwing (defined in the script)."""
    def __init__(self, tag, op=None, key=None, mode=None):
        self.tag, self.key, self.mode = tag, key, mode
    def src(self, name):
        lines = ["%s =" % name, "  tag: '%s'" % self.tag, "  @type: 'K'"]
        if self.key:
            body = {"ret": "'%s%s'" % (self.tag, self.key), "unimpl": "throw koto.unimplemented", "throws": "throw 'boom'"}[self.mode]
            lines += ["  %s: |o|" % self.key, "    hlog.push '%s.%s[self={ksh self} o={ksh o}]'" % (self.tag, self.key), "    " + body]
        return lines

def arith(log, L, R, i):
    sym, name = OPS[i]
    if isinstance(L, P):
        try:
            return call(log, L, ADD + i, name, show(R))
        except Unimpl:
            pass
        if isinstance(R, P):
            try:
                return call(log, R, ADD_RHS + i, name + "_rhs", show(L))
            except Unimpl:
                raise HErr()
        if isinstance(R, KObj) and R.key == "@r" + sym:
            log.append("%s.%s[self=obj:%s o=%s]" % (R.tag, R.key, R.tag, ksh(L)))
            if R.mode == "ret": return R.tag + R.key
            raise HErr()
        raise HErr()
    if isinstance(L, KObj) and L.key == "@" + sym:
        log.append("%s.%s[self=obj:%s o=%s]" % (L.tag, L.key, L.tag, ksh(R)))
        if L.mode == "ret": return L.tag + L.key
        if L.mode == "throws": raise HErr()
        # unimplemented: the probe on the right is asked
        try:
            return call(log, R, ADD_RHS + i, name + "_rhs", show(L))
        except Unimpl:
            raise HErr()
    # a value without the operator on the left (number, plain Koto object): the probe's _rhs method
    try:
        return call(log, R, ADD_RHS + i, name + "_rhs", show(L))
    except Unimpl:
        raise HErr()

def compare(log, p, R, op):
    def prim(bit, name):
        try:
            return call(log, p, bit, name, show(R), value=("T" if p.truth.get(bit) else "F")) == "T"
        except Unimpl:
            raise HErr()
    direct = {"<": (LESS, "less"), "==": (EQ, "equal"), "<=": (LE, "less_or_equal"), ">": (GT, "greater"), ">=": (GE, "greater_or_equal"), "!=": (NE, "not_equal")}
    bit, name = direct[op]
    if op in ("<", "==") or p.cmp_variant:
        return prim(bit, name)
    if op == "<=":
        return True if prim(LESS, "less") else prim(EQ, "equal")
    if op == ">":
        return False if prim(LESS, "less") else not prim(EQ, "equal")
    if op == ">=":
        return not prim(LESS, "less")
    if op == "!=":
        return not prim(EQ, "equal")

def log_text(log):
    return "(" + ", ".join("'%s'" % l for l in log) + ")"

def case(setup, stmts, fn):
    """stmts: statements; the last value is in r. Returns (lines, expected)."""
    lines = ["hlog = []"] + KSH + setup + ["try"] + ["  " + s for s in stmts] + ["  print plog(), hlog", "  print '= {r}'", "catch _", "  print plog(), hlog", "  print 'E'"]
    log = []
    try:
        r = fn(log)
        res = "= " + (result_text(r) if not isinstance(r, bool) else ("true" if r else "false"))
    except (HErr, Unimpl):
        res = "E"
    host = [l for l in log if "(" in l]
    koto = [l for l in log if "(" not in l]
    exp = ["(%s, [%s])" % (log_text(host), ", ".join("'%s'" % l for l in koto)), res]
    return lines, exp

def build_cases():
    # arithmetic: probe on the left x operand kinds x modes of both sides
    for i, (sym, name) in enumerate(OPS):
        for lm in MODES:
            p = P("P", {ADD + i: lm})
            for otext, oval in (("1", 1), ("'s'", "s"), ("null", "null")):
                yield ("host-arith P(%s) %s %s" % (lm, sym, otext),) + case([p.src("p")], ["r = p %s %s" % (sym, otext)], lambda log, p=p, oval=oval, i=i: arith(log, p, oval, i))
            for rm in MODES:
                q = P("Q", {ADD_RHS + i: rm})
                yield ("host-arith P(%s) %s Q(r:%s)" % (lm, sym, rm),) + case([p.src("p"), q.src("q")], ["r = p %s q" % sym], lambda log, p=p, q=q, i=i: arith(log, p, q, i))
            for km in (None, "ret", "unimpl", "throws"):
                k = KObj("K", key="@r" + sym if km else None, mode=km)
                yield ("host-arith P(%s) %s K(r:%s)" % (lm, sym, km),) + case([p.src("p")] + k.src("k"), ["r = p %s k" % sym], lambda log, p=p, k=k, i=i: arith(log, p, k, i))
        # probe on the right
        for rm in MODES:
            q = P("Q", {ADD_RHS + i: rm})
            yield ("host-arith 1 %s Q(r:%s)" % (sym, rm),) + case([q.src("q")], ["r = 1 %s q" % sym], lambda log, q=q, i=i: arith(log, 1, q, i))
            for km in (None, "ret", "unimpl", "throws"):
                k = KObj("K", key="@" + sym if km else None, mode=km)
                if km is None and sym == "+":
                    continue  # a plain map on the left of `+`: no operator on either side is a documented error only for non-maps
                yield ("host-arith K(%s) %s Q(r:%s)" % (km, sym, rm),) + case([q.src("q")] + k.src("k"), ["r = k %s q" % sym], lambda log, q=q, k=k, i=i: arith(log, k, q, i))
        # compound assignment
        for am in MODES:
            p = P("P", {ADD_ASSIGN + i: am, ADD + i: "ret"})
            def f(log, p=p, i=i, name=name):
                try:
                    call(log, p, ADD_ASSIGN + i, name + "_assign", "1")
                except Unimpl:
                    raise HErr()
                return p
            yield ("host-compound %s= (%s)" % (sym, am),) + case([p.src("p")], ["r = p", "r %s= 1" % sym], f)
    # comparisons: derived through the interface defaults (Probe) and overridden (ProbeCmp)
    for op in ("<", "<=", ">", ">=", "==", "!="):
        for lm, em in itertools.product(MODES, MODES):
            for lt, et in itertools.product((False, True), (False, True)):
                if (lm != "ret" and lt) or (em != "ret" and et):
                    continue
                p = P("P", {LESS: lm, EQ: em}, {LESS: lt, EQ: et})
                for otext, oval in (("1", 1), ("q", None)):
                    q = P("Q", {LESS: "ret", EQ: "ret"})
                    o = q if oval is None else oval
                    yield ("host-cmp P %s %s less=%s/%s equal=%s/%s" % (op, otext, lm, lt, em, et),) + case([p.src("p"), q.src("q")], ["r = p %s %s" % (op, otext)], lambda log, p=p, o=o, op=op: compare(log, p, o, op))
        for mode in MODES[1:]:
            for tv in (False, True):
                bit = {"<": LESS, "<=": LE, ">": GT, ">=": GE, "==": EQ, "!=": NE}[op]
                p = P("P", {bit: mode, LESS: "ret", EQ: "ret"} if bit not in (LESS, EQ) else {bit: mode}, {bit: tv}, cmp_variant=True)
                yield ("host-cmp-override P %s 1 (%s, %s)" % (op, mode, tv),) + case([p.src("p")], ["r = p %s 1" % op], lambda log, p=p, op=op: compare(log, p, 1, op))
        # probe on the right of a number: never consulted
        p = P("P", {LESS: "ret", EQ: "ret", LE: "ret", GT: "ret", GE: "ret", NE: "ret"}, cmp_variant=True)
        def f(log, op=op):
            if op == "==": return False
            if op == "!=": return True
            raise HErr()
        yield ("host-cmp 1 %s P" % op,) + case([p.src("p")], ["r = 1 %s p" % op], f)
    # unary / protocol methods
    for mode in MODES:
        p = P("P", {NEGATE: mode})
        def f(log, p=p):
            try: return call(log, p, NEGATE, "negate", None)
            except Unimpl: raise HErr()
        yield ("host-negate %s" % mode,) + case([p.src("p")], ["r = -p"], f)
        p = P("P", {INDEX: mode})
        def f(log, p=p):
            try: return call(log, p, INDEX, "index", "0")
            except Unimpl: raise HErr()
        yield ("host-index %s" % mode,) + case([p.src("p")], ["r = p[0]"], f)
        p = P("P", {INDEX_ASSIGN: mode})
        def f(log, p=p):
            try: call(log, p, INDEX_ASSIGN, "index_assign", "0")
            except Unimpl: raise HErr()
            return "done"
        yield ("host-index-assign %s" % mode,) + case([p.src("p")], ["p[0] = 5", "r = 'done'"], f)
        if mode in ("off", "ret"):
            p = P("P", {SIZE: mode})
            def f(log, p=p):
                try: return call(log, p, SIZE, "size", None, value="3")
                except Unimpl: raise HErr()
            yield ("host-size %s" % mode,) + case([p.src("p")], ["r = size p"], f)
        if mode in ("off", "ret", "throws"):
            p = P("P", {CALL: mode})
            def f(log, p=p, mode=mode):
                if mode == "off": raise HErr()
                try: return call(log, p, CALL, "call", "5")
                except Unimpl: raise HErr()
            # is_callable follows the implemented mask only: a throwing call is not announced as callable
            if mode != "throws":
                yield ("host-call %s" % mode,) + case([p.src("p")], ["r = p(5)"], f)
    # access to an unknown entry and display
    p = P("P")
    yield ("host-access method",) + case([p.src("p")], ["r = p.tag()"], lambda log: "P")
    yield ("host-access missing",) + case([p.src("p")], ["r = p.nothere"], lambda log: (_ for _ in ()).throw(HErr()))
    yield ("host-display",) + case([p.src("p")], ["r = '{p}'"], lambda log: "Probe(P)")

def run_host(chk, cov, tier, seed):
    from . import c17
    w = Worker()
    cases = list(build_cases())
    classes = {}
    for i in range(0, len(cases), 25):
        batch = cases[i:i + 25]
        text, want = c17.render([(c[0], c[1], c[2]) for c in batch])
        r = w.exec(text, timeout=60, limit_ms=20000)
        if r.get("panic"):
            chk.violation(panic_key(r), "panic in the host-object dispatch grid: %s" % r["panic"].get("message", "")[:100], {"src": text})
            continue
        got = c17.split(r.get("stdout", ""))
        for k, (label, lines, exp) in enumerate(batch):
            cls = label.split(" ")[0]
            classes[cls] = classes.get(cls, 0) + 1
            if got.get(k) != exp:
                single, _ = c17.render([(label, lines, exp)])
                chk.violation("host-dispatch:%s" % sha(label), "host object dispatch differs from the model (%s): real %r, model %r" % (label, got.get(k), exp), {"src": single, "expected": exp, "got": got.get(k)})
    w.close()
    cov["streams"]["host-objects"] = classes
    n = sum(classes.values())
    cov["evaluations"] += n
    cov["distinct_nontrivial"] += n
