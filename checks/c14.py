"""C14 Value model: sharing, copying, equality, ordering and map keys.
(a) Differential monitor against an abstract heap: seeded histories of container operations over
five variables (lists, maps, tuples; aliases, nested aliases, copies, deep copies, mutation through
function arguments and captures, every core function of list / map / tuple without callbacks that
is plainly documented, indexing, slicing, range assignment, `+`); after every step the result of
the step and the display of every variable are printed and must equal the model's heap.
(b) Relational laws over a boundary pool, evaluated by the real runtime inside Koto scripts that
report failing instances: == reflexive / symmetric, != its negation, < a strict total order on
numbers and on strings (trichotomy, transitivity, <= > >= consistent), key identity (two keys
address one entry exactly when they are ==) for maps pre-filled with 0..33 other entries, sort /
sort_copy / map.sort return ordered permutations."""
import random, time, math
from .common import *
from kvmodel.values import float_str
from kv.pool import fan_out

PID = "C14"

class HErr(Exception):
    pass
class Skip(Exception):
    pass

class HL:
    def __init__(self, items): self.items = list(items)
class HT:
    def __init__(self, items): self.items = tuple(items)
class HR:
    def __init__(self, lo, hi): self.lo, self.hi = lo, hi
class HM:
    def __init__(self, ents=()):
        self.e = {}
        for k, v in ents:
            self.put(k, v)
    def put(self, k, v):
        n = norm(k)
        if n in self.e:
            old = self.e[n][1]
            self.e[n][1] = v
            return old
        self.e[n] = [k, v]
        return None

def is_num(v): return type(v) in (int, float)

def norm(k):
    if k is None: return ("z",)
    if type(k) is bool: return ("b", k)
    if is_num(k): return ("n", float(k) + 0.0 if float(k) != 0 else 0.0)
    if type(k) is str: return ("s", k)
    if isinstance(k, HT): return ("t", tuple(norm(x) for x in k.items))
    if isinstance(k, HR): return ("r", k.lo, k.hi)
    raise HErr("unhashable")

def disp(v, inner=False):
    if v is None: return "null"
    if v is True: return "true"
    if v is False: return "false"
    if type(v) is int: return str(v)
    if type(v) is float: return float_str(v)
    if type(v) is str: return "'%s'" % v if inner else v
    if isinstance(v, HL): return "[" + ", ".join(disp(x, True) for x in v.items) + "]"
    if isinstance(v, HT): return "(" + ", ".join(disp(x, True) for x in v.items) + ")"
    if isinstance(v, HR): return "%d..%d" % (v.lo, v.hi)
    if isinstance(v, HM):
        return "{" + ", ".join("%s: %s" % (k if type(k) is str else disp(k, True), disp(x, True)) for k, x in v.e.values()) + "}"
    raise ValueError(v)

def lit(v):
    """Koto source of a fresh value."""
    if type(v) is str: return "'%s'" % v
    if isinstance(v, HL): return "[" + ", ".join(lit(x) for x in v.items) + "]"
    if isinstance(v, HT):
        return "()" if not v.items else "(%s,)" % lit(v.items[0]) if len(v.items) == 1 else "(" + ", ".join(lit(x) for x in v.items) + ")"
    if isinstance(v, HR): return "%d..%d" % (v.lo, v.hi)
    if isinstance(v, HM):
        return "{" + ", ".join("%s: %s" % (k, lit(x)) for k, x in v.e.values()) + "}"
    if type(v) is float and v == 0 and math.copysign(1, v) < 0: return "-0.0"
    return disp(v)

def equal(a, b):
    if is_num(a) and is_num(b) and type(a) is not bool and type(b) is not bool: return float(a) == float(b) if float in (type(a), type(b)) else a == b
    if type(a) is bool or type(b) is bool: return type(a) is bool and type(b) is bool and a == b
    if a is None or b is None: return a is None and b is None
    if type(a) is str or type(b) is str: return type(a) is str and type(b) is str and a == b
    if isinstance(a, HL) and isinstance(b, HL) or isinstance(a, HT) and isinstance(b, HT):
        return len(a.items) == len(b.items) and all(equal(x, y) for x, y in zip(a.items, b.items))
    if isinstance(a, HM) and isinstance(b, HM):
        return len(a.e) == len(b.e) and all(n in b.e and equal(kv[1], b.e[n][1]) for n, kv in a.e.items())
    if isinstance(a, HR) and isinstance(b, HR): return (a.lo, a.hi) == (b.lo, b.hi)
    return False

def reaches(v, target, depth=0):
    if v is target: return True
    if isinstance(v, (HL, HT)): return any(reaches(x, target) for x in v.items)
    if isinstance(v, HM): return any(reaches(x, target) or reaches(k, target) for k, x in v.e.values())
    return False

def shallow(v):
    if isinstance(v, HL): return HL(v.items)
    if isinstance(v, HM):
        m = HM(); m.e = {n: list(kv) for n, kv in v.e.items()}; return m
    return v

def deep(v):
    if isinstance(v, HL): return HL([deep(x) for x in v.items])
    if isinstance(v, HT): return HT([deep(x) for x in v.items])
    if isinstance(v, HM):
        m = HM(); m.e = {n: [kv[0], deep(kv[1])] for n, kv in v.e.items()}; return m
    return v

def iter_items(v):
    if isinstance(v, (HL, HT)): return list(v.items)
    if isinstance(v, HM): return [HT([k, x]) for k, x in v.e.values()]
    if isinstance(v, HR): return list(range(v.lo, v.hi)) if v.lo <= v.hi else []
    if type(v) is str: return list(v)
    raise HErr("not iterable")

def sortable(items):
    if all(is_num(x) and type(x) is not bool and not (type(x) is float and math.isnan(x)) for x in items): return "n"
    if all(type(x) is str for x in items): return "s"
    return None

def sort_key(kind):
    # strings are ordered by their UTF-8 bytes
    return (lambda x: float(x)) if kind == "n" else (lambda x: x.encode("utf-8"))

NAMES = ["a", "b", "c", "d", "e"]
PRELUDE = """addl = |x, v| x.push v
setm = |x, k, v| x.insert k, v
"""

class History:
    def __init__(self, rng):
        self.rng = rng
        self.vars = {}
        self.lines = []   # koto
        self.want = []    # expected stdout lines

    # ---- value choice
    def scalar(self):
        return self.rng.choice([0, 1, 2, 3, 7, -1, 1.0, 0.5, "x", "y", None, True])
    def fresh(self):
        r = self.rng
        k = r.randrange(6)
        if k == 0: return HL([self.scalar() for _ in range(r.randrange(0, 4))])
        if k == 1: return HT([self.scalar() for _ in range(r.randrange(0, 4))])
        if k == 2: return HM([(r.choice("abcd"), self.scalar()) for _ in range(r.randrange(0, 3))])
        if k == 3: return HL([HL([self.scalar()]), self.scalar()])
        return self.scalar()
    def value(self, avoid=None):
        """(koto text, model value): a scalar, a fresh container or another variable (nested alias)."""
        r = self.rng
        if r.random() < 0.3:
            n = r.choice(NAMES)
            v = self.vars[n]
            if avoid is None or not reaches(v, avoid):
                return n, v
        v = self.fresh()
        return lit(v), v
    def key(self):
        r = self.rng
        k = r.choice(["a", "b", "c", "a", "b", 1, 2, 1.0, 2.0, 0, -0.0, 0.5, HT([1, 2]), HT([1.0, 2]), None, True, HR(1, 3), "d"])
        return lit(k), k

    # ---- emit
    def step(self, code, fn, assign=None):
        """code: koto expression (result printed) or statement list when it starts with '!'."""
        if code.startswith("!"):
            body = code[1:].split("\n") + ["print '= ok'"]
        elif assign:
            body = ["%s = %s" % (assign, code), "print '= set'"]
        else:
            body = ["r = %s" % code, "print '= {r}'"]
        self.lines += ["try"] + ["  " + l for l in body] + ["catch _", "  print 'E'"]
        try:
            res = fn()
            if code.startswith("!"):
                self.want.append("= ok")
            elif assign:
                self.vars[assign] = res
                self.want.append("= set")
            else:
                self.want.append("= " + disp(res))
        except HErr:
            self.want.append("E")
        self.lines.append("print '| " + " | ".join("{%s}" % n for n in NAMES) + "'")
        self.want.append("| " + " | ".join(disp(self.vars[n]) for n in NAMES))

    def init(self):
        for n in NAMES:
            v = self.fresh() if self.rng.random() < 0.8 else HL([1, 2, 3])
            if not isinstance(v, (HL, HM, HT)):
                v = HL([v])
            self.vars[n] = v
            self.lines.append("%s = %s" % (n, lit(v)))

    # ---- operations
    def random_op(self):
        r = self.rng
        n = r.choice(NAMES)
        x = self.vars[n]
        k = r.random()
        if k < 0.18:
            return self.alias_op(n)
        if isinstance(x, HL):
            return self.list_op(n, x)
        if isinstance(x, HM):
            return self.map_op(n, x)
        if isinstance(x, HT):
            return self.tuple_op(n, x)
        return self.alias_op(n)

    def alias_op(self, n):
        r = self.rng
        src = r.choice([m for m in NAMES if m != n])
        v = self.vars[src]
        k = r.randrange(9)
        if k == 0: return self.step(src, lambda: v, assign=n)
        if k == 1: return self.step("copy %s" % src, lambda: shallow(v), assign=n)
        if k == 2: return self.step("koto.deep_copy %s" % src, lambda: deep(v), assign=n)
        if k == 3: return self.step("[%s, 1]" % src, lambda: HL([v, 1]), assign=n)
        if k == 4: return self.step("(%s, %s)" % (src, src), lambda: HT([v, v]), assign=n)
        if k == 5: return self.step("{k: %s}" % src, lambda: HM([("k", v)]), assign=n)
        if k == 6 and isinstance(v, (HL, HT)) and v.items:
            i = r.randrange(len(v.items))
            return self.step("%s[%d]" % (src, i), lambda: v.items[i], assign=n)
        if k == 7:
            other = self.vars[r.choice(NAMES)]
            return self.step("%s == %s" % (src, n), lambda: equal(v, self.vars[n]))
        text, val = self.value()
        return self.step(text, lambda: val, assign=n)

    def index(self, size):
        return self.rng.choice([0, 0, 1, 2, size - 1, size, size + 1, 3]) if size else self.rng.choice([0, 1])

    def list_op(self, n, x):
        r = self.rng
        size = len(x.items)
        op = r.randrange(34)
        vt, vv = self.value(avoid=x)
        i = max(0, self.index(size))
        def idx(items, i):
            if i >= len(items): raise HErr("index")
            return i
        if op == 0:
            def f(): x.items.append(vv); return x
            return self.step("%s.push %s" % (n, vt), f)
        if op == 1:
            return self.step("%s.pop()" % n, lambda: x.items.pop() if x.items else None)
        if op == 2:
            def f():
                if i > len(x.items): raise HErr("index")
                x.items.insert(i, vv); return x
            return self.step("%s.insert %d, %s" % (n, i, vt), f)
        if op == 3:
            return self.step("%s.remove %d" % (n, i), lambda: x.items.pop(idx(x.items, i)))
        if op == 4:
            def f(): x.items.clear(); return x
            return self.step("%s.clear()" % n, f)
        if op == 5:
            src = r.choice(NAMES + ["lit", "lit", "str", "range"])
            if src in NAMES:
                y = self.vars[src]
                if reaches(y, x) or y is x: raise Skip()
                if not isinstance(y, (HL, HT, HM)): raise Skip()
                yt = src
            elif src == "str":
                y, yt = "pq", "'pq'"
            elif src == "range":
                y = HR(1, 3); yt = "1..3"
            else:
                y = r.choice([HL([self.scalar(), self.scalar()]), HT([self.scalar()]), HM([("k", 1), ("j", 2)])]); yt = lit(y)
            def f(): x.items.extend(iter_items(y)); return x
            return self.step("%s.extend %s" % (n, yt), f)
        if op == 6:
            def f(): x.items[:] = [vv] * len(x.items); return x
            return self.step("%s.fill %s" % (n, vt), f)
        if op == 7: return self.step("%s.first()" % n, lambda: x.items[0] if x.items else None)
        if op == 8: return self.step("%s.last()" % n, lambda: x.items[-1] if x.items else None)
        if op == 9: return self.step("%s.get %d" % (n, i), lambda: x.items[i] if i < len(x.items) else None)
        if op == 10: return self.step("%s.get %d, 'dflt'" % (n, i), lambda: x.items[i] if i < len(x.items) else "dflt")
        if op == 11:
            st, sv = self.value()
            return self.step("%s.contains %s" % (n, st), lambda: any(equal(e, sv) for e in x.items))
        if op == 12: return self.step("%s.is_empty()" % n, lambda: not x.items)
        if op == 13: return self.step("size %s" % n, lambda: len(x.items))
        if op == 14: return self.step("%s.to_tuple()" % n, lambda: HT(x.items))
        if op == 15:
            k = r.randrange(0, 6)
            def f():
                x.items[:] = x.items[:k] + [None] * (k - len(x.items)); return x
            return self.step("%s.resize %d" % (n, k), f)
        if op == 16:
            k = r.randrange(0, 6)
            def f():
                x.items[:] = x.items[:k] + [vv] * (k - len(x.items)); return x
            return self.step("%s.resize %d, %s" % (n, k, vt), f)
        if op == 17:
            def f(): x.items.reverse(); return x
            return self.step("%s.reverse()" % n, f)
        if op == 18:
            kind = sortable(x.items)
            if kind is None: raise Skip()
            def f(): x.items.sort(key=sort_key(kind)); return x
            return self.step("%s.sort()" % n, f)
        if op == 19:
            m = r.choice([q for q in NAMES if q != n])
            y = self.vars[m]
            if not isinstance(y, HL) or y is x or reaches(y, x) or reaches(x, y): raise Skip()
            def f(): x.items, y.items = y.items, x.items; return None
            return self.step("%s.swap %s" % (n, m), f)
        if op == 20: return self.step("%s[%d]" % (n, i), lambda: x.items[idx(x.items, i)])
        if op == 21:
            def f(): x.items[idx(x.items, i)] = vv
            return self.step("!%s[%d] = %s" % (n, i, vt), f)
        if op in (22, 23, 24, 25):
            lo = r.randrange(0, size + 2); hi = r.randrange(0, size + 3)
            form = r.randrange(4)
            text = ["%d..%d" % (lo, hi), "%d..=%d" % (lo, hi), "%d.." % lo, "..%d" % hi][form]
            def bounds():
                n_ = len(x.items)
                a = lo if form != 3 else 0
                b = hi if form == 0 or form == 3 else hi + 1 if form == 1 else n_
                a, b = min(a, n_), min(b, n_)
                return a, max(a, b)
            if op in (22, 23):
                def f():
                    a, b = bounds(); return HL(x.items[a:b])
                return self.step("%s[%s]" % (n, text), f)
            def f():
                a, b = bounds()
                for j in range(a, b): x.items[j] = vv
            return self.step("!%s[%s] = %s" % (n, text, vt), f)
        if op == 26:
            m = r.choice(NAMES)
            y = self.vars[m]
            if not isinstance(y, HL): raise Skip()
            tgt = r.choice(NAMES)
            return self.step("%s + %s" % (n, m), lambda: HL(x.items + y.items), assign=tgt)
        if op == 27:
            # a test value that reaches the list itself is finding family F-P7 (borrow held during the comparison)
            st, sv = self.value(avoid=x)
            def f(): x.items[:] = [e for e in x.items if equal(e, sv)]; return x
            return self.step("%s.retain %s" % (n, st), f)
        if op == 28:
            def f(): x.items[:] = [HT([e]) for e in x.items]; return x
            return self.step("%s.transform |v| (v,)" % n, f)
        if op == 29:
            def f(): x.items.append(vv); return x
            return self.step("addl %s, %s" % (n, vt), f)
        if op == 30:
            def f(): x.items.append(5)
            return self.step("!g = || %s.push 5\ng()" % n, f)
        if op == 31 and x.items:
            j = r.randrange(len(x.items))
            y = x.items[j]
            if isinstance(y, HL):
                def f(): y.items.append(vv); return y
                if reaches(vv, y): raise Skip()
                return self.step("%s[%d].push %s" % (n, j, vt), f)
            if isinstance(y, HM):
                def f(): return y.put("z", vv)
                if reaches(vv, y): raise Skip()
                return self.step("%s[%d].insert 'z', %s" % (n, j, vt), f)
        if op == 32:
            return self.step("%s == %s" % (n, lit(shallow(x)) if not any(isinstance(e, (HL, HM, HT)) for e in x.items) else n), lambda: True if not any(type(e) is float and math.isnan(e) for e in x.items) else False)
        raise Skip()

    def tuple_op(self, n, x):
        r = self.rng
        size = len(x.items)
        i = max(0, self.index(size))
        op = r.randrange(14)
        if op == 0:
            def f():
                if i >= size: raise HErr("index")
                return x.items[i]
            return self.step("%s[%d]" % (n, i), f)
        if op == 1: return self.step("%s.first()" % n, lambda: x.items[0] if x.items else None)
        if op == 2: return self.step("%s.last()" % n, lambda: x.items[-1] if x.items else None)
        if op == 3: return self.step("%s.get %d, 'dflt'" % (n, i), lambda: x.items[i] if i < size else "dflt")
        if op == 4:
            st, sv = self.value()
            return self.step("%s.contains %s" % (n, st), lambda: any(equal(e, sv) for e in x.items))
        if op == 5: return self.step("%s.to_list()" % n, lambda: HL(x.items), assign=r.choice(NAMES))
        if op == 6:
            kind = sortable(x.items)
            if kind is None: raise Skip()
            return self.step("%s.sort_copy()" % n, lambda: HT(sorted(x.items, key=sort_key(kind))))
        if op == 7:
            m = r.choice(NAMES)
            y = self.vars[m]
            if not isinstance(y, HT): raise Skip()
            return self.step("%s + %s" % (n, m), lambda: HT(x.items + y.items), assign=r.choice(NAMES))
        if op == 8: return self.step("size %s" % n, lambda: size)
        if op == 9:
            def f(): raise HErr("immutable")
            return self.step("!%s[0] = 1" % n, f)
        if op in (10, 11):
            lo = r.randrange(0, size + 2); hi = r.randrange(0, size + 3)
            def f():
                a, b = min(lo, size), min(hi, size)
                return HT(x.items[a:max(a, b)])
            return self.step("%s[%d..%d]" % (n, lo, hi), f)
        if op == 12 and x.items:
            j = r.randrange(size)
            y = x.items[j]
            vt, vv = self.value(avoid=y)
            if isinstance(y, HL):
                def f(): y.items.append(vv); return y
                return self.step("%s[%d].push %s" % (n, j, vt), f)
        if op == 13: return self.step("%s.is_empty()" % n, lambda: not x.items)
        raise Skip()

    def map_op(self, n, x):
        r = self.rng
        op = r.randrange(26)
        kt, kv = self.key()
        vt, vv = self.value(avoid=x)
        size = len(x.e)
        i = max(0, self.index(size))
        def entry(j):
            if j >= len(x.e): raise HErr("index")
            k, v = list(x.e.values())[j]
            return HT([k, v])
        if op in (0, 1):
            return self.step("%s.insert(%s, %s)" % (n, kt, vt), lambda: x.put(kv, vv))
        if op == 2:
            return self.step("%s.insert(%s)" % (n, kt), lambda: x.put(kv, None))
        if op in (3, 4):
            def f():
                kv_ = x.e.pop(norm(kv), None)
                return None if kv_ is None else kv_[1]
            return self.step("%s.remove(%s)" % (n, kt), f)
        if op == 5:
            return self.step("%s.get(%s)" % (n, kt), lambda: x.e.get(norm(kv), [None, None])[1])
        if op == 6:
            return self.step("%s.get(%s, 'dflt')" % (n, kt), lambda: x.e[norm(kv)][1] if norm(kv) in x.e else "dflt")
        if op == 7:
            return self.step("%s.contains_key(%s)" % (n, kt), lambda: norm(kv) in x.e)
        if op == 8:
            return self.step("%s.keys().to_tuple()" % n, lambda: HT([k for k, _ in x.e.values()]))
        if op == 9:
            return self.step("%s.values().to_list()" % n, lambda: HL([v for _, v in x.e.values()]))
        if op == 10:
            src = r.choice(NAMES + ["lit", "pairs"])
            if src in NAMES:
                y = self.vars[src]
                if not isinstance(y, HM) or y is x or reaches(y, x): raise Skip()
                yt = src
                ents = lambda: [(k, v) for k, v in y.e.values()]
            elif src == "lit":
                y = HM([(r.choice("abce"), self.scalar()), (r.choice("abcf"), self.scalar())]); yt = lit(y)
                ents = lambda: [(k, v) for k, v in y.e.values()]
            else:
                k2t, k2v = self.key()
                yt = "[(%s, 1), %s]" % (kt, k2t)
                ents = lambda: [(kv, 1), (k2v, None)] if not (isinstance(k2v, HT) and len(k2v.items) == 2) else [(kv, 1), (k2v.items[0], k2v.items[1])]
            def f():
                for k, v in ents(): x.put(k, v)
                return x
            return self.step("%s.extend %s" % (n, yt), f)
        if op == 11:
            def f():
                cur = x.e.get(norm(kv), [None, None])[1]
                x.put(kv, HT([cur, 1])); return HT([cur, 1])
            return self.step("%s.update(%s, |v| (v, 1))" % (n, kt), f)
        if op == 12:
            def f():
                cur = x.e[norm(kv)][1] if norm(kv) in x.e else 10
                x.put(kv, HT([cur, 2])); return HT([cur, 2])
            return self.step("%s.update(%s, 10, |v| (v, 2))" % (n, kt), f)
        if op == 13:
            def f(): x.e.clear(); return x
            return self.step("%s.clear()" % n, f)
        if op == 14:
            keys = [k for k, _ in x.e.values()]
            kind = sortable(keys)
            if kind is None: raise Skip()
            def f():
                order = sorted(x.e.values(), key=lambda kv_: sort_key(kind)(kv_[0]))
                x.e = {norm(k): [k, v] for k, v in order}
                return x
            return self.step("%s.sort()" % n, f)
        if op == 15:
            return self.step("%s.get_index %d" % (n, i), lambda: entry(i) if i < len(x.e) else None)
        if op == 16:
            return self.step("%s[%d]" % (n, i), lambda: entry(i))
        if op in (17, 18):
            def f():
                if i >= len(x.e): raise HErr("index")
                ents = [list(kv_) for kv_ in x.e.values()]
                nk = norm(kv)
                # the entry at i is replaced; an entry that already uses the key gives way
                old = [j for j, e in enumerate(ents) if norm(e[0]) == nk and j != i]
                ents[i] = [kv, vv]
                for j in old: ents[j] = None
                x.e = {norm(e[0]): e for e in ents if e is not None}
            return self.step("!%s[%d] = (%s, %s)" % (n, i, kt, vt), f)
        if op == 19 and type(kv) is str:
            def f(): x.put(kv, vv)
            return self.step("!%s.%s = %s" % (n, kv, vt), f)
        if op == 20 and type(kv) is str and norm(kv) in x.e:
            return self.step("%s.%s" % (n, kv), lambda: x.e[norm(kv)][1])
        if op == 21: return self.step("size %s" % n, lambda: len(x.e))
        if op == 22: return self.step("%s.is_empty()" % n, lambda: not x.e)
        if op == 23:
            m = r.choice(NAMES)
            y = self.vars[m]
            if not isinstance(y, HM): raise Skip()
            def f():
                z = shallow(x)
                for k, v in y.e.values(): z.put(k, v)
                return z
            return self.step("%s + %s" % (n, m), f, assign=r.choice(NAMES))
        if op == 24:
            def f(): return x.put(kv, vv)
            return self.step("setm %s, %s, %s" % (n, kt, vt), f)
        if op == 25 and x.e:
            nk = r.choice(list(x.e))
            k, y = x.e[nk]
            if type(k) is str and isinstance(y, HL):
                v2t, v2v = self.value(avoid=y)
                def f(): y.items.append(v2v); return y
                return self.step("%s.%s.push %s" % (n, k, v2t), f)
        raise Skip()

def build_history(rng, steps):
    h = History(rng)
    h.init()
    n = 0
    guard = 0
    while n < steps and guard < steps * 20:
        guard += 1
        try:
            h.random_op()
            n += 1
        except Skip:
            pass
    return h

def render(histories):
    out, want = [PRELUDE], []
    for k, h in enumerate(histories):
        out.append("print '#%d'" % k)
        out += h.lines
        want.append(["#%d" % k] + h.want)
    return "\n".join(out) + "\n", want

def split(stdout):
    segs, cur = {}, None
    lines = stdout.split("\n")
    if lines and lines[-1] == "": lines.pop()
    for line in lines:
        if line.startswith("#") and line[1:].isdigit():
            cur = int(line[1:]); segs[cur] = [line]
        elif cur is not None:
            segs[cur].append(line)
    return segs

def _shard(shard, n, tier, seed, budget_s):
    w = Worker()
    rep = {"violations": [], "evaluations": 0, "steps": 0, "histories": 0, "expected_errors": 0, "samples": [], "op_kinds": {}}
    t_end = time.time() + budget_s
    i = 0
    while time.time() < t_end:
        i += 1
        rng = random.Random((seed * 1000003 + shard) * 1000003 + i)
        hs = [build_history(random.Random(rng.getrandbits(48)), rng.choice([6, 12, 25, 40] if tier == "quick" else [6, 12, 25, 40, 80])) for _ in range(8)]
        text, want = render(hs)
        r = w.exec(text, timeout=60, limit_ms=20000)
        rep["evaluations"] += 1
        if r.get("panic"):
            rep["violations"].append({"key": panic_key(r), "summary": "panic in a container history: %s" % r["panic"].get("message", "")[:100], "case": {"src": text}})
            continue
        if r.get("outcome") in ("hang", "died"):
            if r.get("outcome") == "hang" or r.get("kind") not in ("alloc", "stack"):
                rep["violations"].append({"key": "c14-%s:%s" % (r.get("outcome"), sha(text)), "summary": "container history %s" % r.get("outcome"), "case": {"src": text}})
            continue
        got = split(r.get("stdout", ""))
        for k, h in enumerate(hs):
            rep["histories"] += 1
            rep["steps"] += len(h.want) // 2
            rep["expected_errors"] += h.want.count("E")
            if got.get(k) != want[k]:
                g = got.get(k) or []
                first = next((j for j, (a, b) in enumerate(zip(g, want[k])) if a != b), min(len(g), len(want[k])))
                single, _ = render([h])
                # the koto lines of the failing step: 6-7 lines per step
                rep["violations"].append({"key": "heap:%s" % sha("\n".join(h.lines)), "summary": "container history differs from the abstract heap at output line %d: real %r, model %r" % (
                    first, g[first] if first < len(g) else None, want[k][first] if first < len(want[k]) else None), "case": {"src": single, "expected": want[k], "got": g}})
        if not rep["samples"]:
            rep["samples"].append({"history_head": "\n".join(hs[0].lines[:24]), "expected_head": hs[0].want[:6]})
    w.close()
    return rep

# ---------------------------------------------------------------- laws
LAW_POOL = ["null", "true", "false", "0", "1", "-1", "2", "64", "9223372036854775807", "-9223372036854775807 - 1", "0.5", "-0.5", "1.0", "-0.0", "0.0", "2.5",
            "1.0e300", "number.infinity", "number.negative_infinity", "9007199254740992", "9007199254740993", "9007199254740992.0", "2.0", "64.0", "-1.0",
            "''", "'a'", "'b'", "'ab'", "'B'", "'é'", "'a b'", "'1'", "'aa'",
            "(1, 2)", "(1.0, 2)", "()", "(1,)", "(1, (2, 3))", "('a', 1)", "[1]", "[1.0]", "[]", "[1, [2]]", "{a: 1}", "{a: 1.0}", "{}", "{a: 1, b: 2}", "{b: 2, a: 1}",
            "1..2", "1..=1", "1..3", "(null,)", "(true, 'a')"]
N_NUM = (3, 25)     # slice of LAW_POOL holding numbers
N_STR = (25, 34)    # strings
HASHABLE = list(range(0, 40)) + [49, 50, 51, 52, 53]

LAW_SCRIPT = """pool = [%s]
nums = pool[%d..%d]
strs = pool[%d..%d]
count = 0
fail = |law, a, b| print 'FAIL {law}: {a:?} / {b:?}'
for i, a in pool.enumerate()
  if not (a == a)
    fail 'reflexive', a, a
  if a != a
    fail 'negation-self', a, a
  for j, b in pool.enumerate()
    count += 3
    if (a == b) != (b == a)
      fail 'symmetric', a, b
    if (a != b) != (not (a == b))
      fail 'negation', a, b
    if (a == b) and '{a:?}' == '{b:?}' and i != j
      fail 'duplicate-pool', a, b
for group in (nums, strs)
  for a in group
    for b in group
      count += 5
      n = 0
      if a < b
        n += 1
      if a == b
        n += 1
      if b < a
        n += 1
      if n != 1
        fail 'trichotomy', a, b
      if (a <= b) != ((a < b) or (a == b))
        fail 'le', a, b
      if (a > b) != (b < a)
        fail 'gt', a, b
      if (a >= b) != ((b < a) or (a == b))
        fail 'ge', a, b
      for c in group
        count += 1
        if (a < b) and (b < c) and not (a < c)
          fail 'transitive', a, (b, c)
print 'count {count}'
"""

KEY_SCRIPT = """pool = [%s]
count = 0
for n in (0, 1, 2, 7, 8, 9, 33)
  for i, k1 in pool.enumerate()
    for j, k2 in pool.enumerate()
      count += 1
      m = {}
      for p in 0..n
        m.insert 'p{p}', p
      m.insert k1, 'v'
      same = k1 == k2
      if (m.contains_key k2) != same
        print 'FAIL key-contains n={n}: {k1:?} / {k2:?} equal={same}'
      if ((m.get k2) == 'v') != same
        print 'FAIL key-get n={n}: {k1:?} / {k2:?} equal={same}'
      m.insert k2, 'w'
      if ((size m) == n + 1) != same
        print 'FAIL key-insert n={n}: {k1:?} / {k2:?} equal={same}'
      if (m.keys().skip(n).next().get() == k1) != true
        print 'FAIL key-order n={n}: {k1:?} / {k2:?}'
      r = m.remove k1
      if (r == 'w') != same
        print 'FAIL key-remove n={n}: {k1:?} / {k2:?} equal={same}'
print 'count {count}'
"""

SORT_SCRIPT = """count = 0
check = |orig, sorted, what|
  ok = (size orig) == (size sorted)
  for i in 1..(size sorted)
    if sorted[i] < sorted[i - 1]
      ok = false
  for x in orig
    if (orig.keep(|y| y == x).count()) != (sorted.keep(|y| y == x).count())
      ok = false
  if not ok
    print 'FAIL sort {what}: {orig:?} -> {sorted:?}'
for l in [%s]
  count += 3
  s = copy l
  r = s.sort()
  check l, s, 'list.sort'
  check l, r, 'list.sort result'
  check l, l.to_tuple().sort_copy().to_list(), 'tuple.sort_copy'
  m = {}
  for i, x in l.enumerate()
    m.insert x, i
  keys = m.keys().to_list()
  m.sort()
  check keys, m.keys().to_list(), 'map.sort'
  if (size m) != (size keys)
    print 'FAIL map.sort size'
print 'count {count}'
"""

def law_run(chk, cov, seed):
    w = Worker()
    def run_script(name, text):
        r = w.exec(text, timeout=300, limit_ms=200000)
        out = r.get("stdout", "")
        if r.get("panic"):
            chk.violation(panic_key(r), "panic in the %s law script" % name, {"src": text[:2000]})
            return
        if r.get("outcome") != "ok":
            chk.violation("law-script:%s" % name, "the %s law script did not run to its end: %s %s" % (name, r.get("outcome"), str(r.get("error"))[:200]), {"src": text[:3000]})
            return
        n = 0
        for line in out.split("\n"):
            if line.startswith("FAIL "):
                law = line[5:].split(":")[0]
                chk.violation("law:%s:%s" % (law.split(" ")[0], sha(line)), "law instance fails: " + line[5:][:200], {"line": line, "script": name})
            elif line.startswith("count "):
                n = int(line[6:])
        cov["streams"].setdefault("laws", {})[name] = n
        cov["evaluations"] += n
        cov["distinct_nontrivial"] += n
    run_script("equality-ordering", LAW_SCRIPT % (", ".join(LAW_POOL), N_NUM[0], N_NUM[1], N_STR[0], N_STR[1]))
    run_script("key-identity", KEY_SCRIPT % ", ".join(LAW_POOL[i] for i in HASHABLE))
    rng = random.Random(seed)
    lists = []
    nums = ["0", "1", "-1", "2", "2.0", "0.5", "-0.0", "64", "1.0e300", "-7", "3", "3.5"]
    strs = ["''", "'a'", "'b'", "'ab'", "'B'", "'é'", "'aa'", "'1'"]
    for _ in range(400):
        pool = nums if rng.random() < 0.6 else strs
        lists.append("[" + ", ".join(rng.choice(pool) for _ in range(rng.randrange(0, 9))) + "]")
    run_script("sort", SORT_SCRIPT % ", ".join(lists))
    w.close()

def run(tier, seed):
    chk = Check(PID, tier, seed)
    quick = tier == "quick"
    if not chk.build("rc"):
        return chk.finish({"evaluations": 0, "distinct_nontrivial": 0, "rule": "", "samples": []})
    cov = {"evaluations": 0, "distinct_nontrivial": 0, "samples": [], "streams": {}}
    law_run(chk, cov, seed)
    shards = fan_out(_shard, tier=tier, seed=seed, budget_s=40 if quick else 600)
    st = {"programs": 0, "histories": 0, "steps": 0, "steps_expected_to_throw": 0}
    for s in shards:
        chk.merge_shard(s)
        if "harness_error" in s:
            continue
        st["programs"] += s["evaluations"]; st["histories"] += s["histories"]; st["steps"] += s["steps"]; st["steps_expected_to_throw"] += s["expected_errors"]
        if s["samples"] and not cov["samples"]:
            cov["samples"] = s["samples"]
    cov["streams"]["heap-histories"] = st
    cov["evaluations"] += st["steps"]
    cov["distinct_nontrivial"] += st["histories"]
    cov["rule"] = ("heap histories: 6-80 steps over five variables holding lists / maps / tuples (nested, aliased); 34 list, 26 map, 14 tuple and 9 alias / copy / deep-copy / nesting step kinds, "
                   "arguments drawn from scalars (ints, floats equal to ints, strings, null, bool), fresh containers and other variables, map keys from 18 kinds (1 / 1.0 / 0 / -0.0 / tuples / null / bool / range / "
                   "strings); after each step the step's result (or E) and the display of all five variables must equal the abstract heap. laws: %d-value pool, all pairs (reflexive, symmetric, negation), "
                   "all pairs and triples of 22 numbers and of 9 strings (trichotomy, <= > >= consistency, transitivity), %d hashable keys x keys x 7 map sizes (contains / get / insert / order / remove agree "
                   "with ==), 400 seeded lists (sort / sort_copy / map.sort: ordered permutation). distinct = histories + law instances." % (len(LAW_POOL), len(HASHABLE)))
    return chk.finish(cov, assumptions=["operations taking callbacks that touch the container (finding family F-P7) and self-referential operations (F-P1) are not generated; cyclic containers are not built",
                                         "sorting is only requested for homogeneous number or string data (the guide defines no order across types)",
                                         "transitivity of == is not in the law set (the property does not claim it; it fails for i64 values beyond 2^53 against floats by design of the comparison)"])
