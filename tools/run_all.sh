#!/bin/bash
# usage: tools/run_all.sh <tier> <seed> [checks...]  -- runs checks sequentially, one summary line each
TIER=$1; SEED=$2; shift 2
CHECKS=${@:-C01 C02 C03 C04 C05 C06 C07 C08 C09 C10 C11 C12 C13 C14 C15 C16 C17 C18 C19 C20}
cd /verif
for c in $CHECKS; do
  s=$(date +%s)
  out=$(VERIF_SEED=$SEED ./check $c --tier $TIER 2>&1)
  rc=$?
  e=$(( $(date +%s) - s ))
  echo "$c tier=$TIER seed=$SEED exit=$rc ${e}s :: $(echo "$out" | grep -c '^VIOLATION') violations :: $(echo "$out" | tail -1)"
  if [ $rc -ne 0 ]; then echo "$out" | grep '^VIOLATION' | head -5; fi
done
