"""C18 Modules: exports, imports and caching behave as documented.
Differential monitor over module graphs written to disk: every directed graph on up to three modules
(self loops, cycles, diamonds; complete for <= 3 modules, seeded for 4) x module kind (file, directory
with main.koto, both - the file wins; directory modules resolve their own imports inside their
directory, with decoys outside) x import form per edge (import m, from m import x, from m import x as y,
from m import *, import m as n) x guarded / unguarded imports x a failing module (top level, @test,
@main) x settings (run_import_tests, export_top_level_ids) x root import orders is executed by the
real runtime; marker prints of top levels / tests / mains, the values the importers see, Ok / Err of
every import and the host's view of the exports map must equal the import model (DFS, run once per
runtime, cycle = error, a failed module leaves nothing behind and runs again when imported again).
Histories on one persistent runtime: import, fail, repair the file on disk, import again; repeated
imports from later scripts."""
import itertools, os, random, shutil, time
from .common import *
from kv.pool import fan_out
from kv.report import VERIF

PID = "C18"
FORMS = ["import", "from", "from_as", "star", "import_as", "from_dot_path", "from_updown_path"]

class Mod:
    def __init__(self, name, kind="file", deps=(), fail=None, has_test=True, has_main=True):
        self.name, self.kind, self.deps, self.fail, self.has_test, self.has_main = name, kind, list(deps), fail, has_test, has_main
        # deps: [(target name, form, guarded)]

def import_lines(importer, dep, form, guarded):
    """Koto lines that import `dep` into a fresh function scope and print what they see."""
    fn = "imp_%s_%s" % (importer, dep)
    use = {"import": ("import %s" % dep, "%s.x_%s" % (dep, dep)),
           "from": ("from %s import x_%s" % (dep, dep), "x_%s" % dep),
           "from_as": ("from %s import x_%s as y" % (dep, dep), "y"),
           "star": ("from %s import *" % dep, "x_%s" % dep),
           "import_as": ("import %s as alias" % dep, "alias.x_%s" % dep),
           # other spellings of the same file: the module must still run once
           "from_dot_path": ("from './%s' import x_%s" % (dep, dep), "x_%s" % dep),
           "from_updown_path": ("from 'sub/../%s' import x_%s" % (dep, dep), "x_%s" % dep)}[form]
    if guarded:
        return ["%s = ||" % fn, "  try", "    " + use[0], "    print 'ok %s<-%s {%s}'" % (importer, dep, use[1]), "  catch _", "    print 'err %s<-%s'" % (importer, dep), "%s()" % fn]
    return ["%s = ||" % fn, "  " + use[0], "  print 'ok %s<-%s {%s}'" % (importer, dep, use[1]), "%s()" % fn]

def module_text(m, variant=""):
    tag = m.name + variant
    lines = ["print 'top-start %s'" % tag]
    for dep, form, guarded in m.deps:
        lines += import_lines(m.name, dep, form, guarded)
    lines += ["export x_%s = 'val_%s'" % (m.name, tag), "x_%s = 'local change'" % m.name, "local_only_%s = 1" % m.name]
    if m.has_test:
        lines += ["@test t_%s = ||" % m.name, "  print 'test %s'" % tag] + (["  throw 'test failure'"] if m.fail == "test" else ["  if ctl.fail", "    throw 'test failure'"] if m.fail == "test-ctl" else [])
    if m.has_main:
        lines += ["@main = ||", "  print 'main %s'" % tag] + (["  throw 'main failure'"] if m.fail == "main" else ["  if ctl.fail", "    throw 'main failure'"] if m.fail == "main-ctl" else [])
    lines += ["print 'top-end %s'" % tag]
    if m.fail == "top":
        lines += ["throw 'top failure'"]
    if m.fail == "top-ctl":
        lines += ["if ctl.fail", "  throw 'top failure'"]
    return "\n".join(lines) + "\n"

def write_graph(root_dir, mods):
    """Writes the module files. Directory modules keep their dependencies inside their directory: a dependency `d` of the
    directory module `m` is the file m/d.koto (a copy of module d's text whose markers carry the suffix @m), and the
    top-level d.koto is the decoy that must not be loaded through m."""
    os.makedirs(os.path.join(root_dir, "sub"), exist_ok=True)
    by_name = {m.name: m for m in mods}
    for m in mods:
        if m.kind in ("file", "both"):
            open(os.path.join(root_dir, m.name + ".koto"), "w").write(module_text(m))
        if m.kind in ("dir", "both"):
            d = os.path.join(root_dir, m.name)
            os.makedirs(os.path.join(d, "sub"), exist_ok=True)
            open(os.path.join(d, "main.koto"), "w").write(module_text(m, variant="" if m.kind == "dir" else "#dir"))
            if m.kind == "dir":
                for dep, _, _ in m.deps:
                    if dep in by_name and dep != m.name:
                        leaf = Mod(dep, deps=[], fail=by_name[dep].fail, has_test=by_name[dep].has_test, has_main=by_name[dep].has_main)
                        open(os.path.join(d, dep + ".koto"), "w").write(module_text(leaf, variant="@" + m.name))

class ImportFailed(Exception):
    pass

class Runtime:
    """The import model of one runtime."""
    def __init__(self, mods, run_import_tests):
        self.mods = {m.name: m for m in mods}
        self.run_import_tests = run_import_tests
        self.cache, self.loading, self.out = set(), [], []
        self.ctl_fail = True

    def resolve(self, importer_key, dep):
        """Module identity = path. importer_key None = root script (top directory)."""
        if importer_key is not None and importer_key[1] == "dir":
            # inside directory module: its own directory first (m/dep.koto); a self import finds nothing there
            owner = importer_key[0]
            if dep in self.mods and dep != owner and any(d == dep for d, _, _ in self.mods[owner].deps):
                return (dep, "leaf", owner)
            return None
        if dep not in self.mods:
            return None
        m = self.mods[dep]
        return (dep, "dir" if m.kind == "dir" else "file")

    def do_import(self, importer_key, dep):
        key = self.resolve(importer_key, dep)
        if key is None:
            raise ImportFailed()
        if key in self.cache:
            return key
        if key in self.loading:
            raise ImportFailed()   # import cycle
        self.loading.append(key)
        try:
            self.run_module(key)
            self.cache.add(key)
        finally:
            self.loading.remove(key)
        return key

    def run_module(self, key):
        name = key[0]
        m = self.mods[name]
        tag = name + ("@" + key[2] if key[1] == "leaf" else "")
        deps = [] if key[1] == "leaf" else m.deps
        self.out.append("top-start " + tag)
        for dep, form, guarded in deps:
            try:
                k = self.do_import(key, dep)
                self.out.append("ok %s<-%s val_%s" % (name, dep, k[0] + ("@" + k[2] if k[1] == "leaf" else "")))
            except ImportFailed:
                if guarded:
                    self.out.append("err %s<-%s" % (name, dep))
                else:
                    raise
        self.out.append("top-end " + tag)
        def fails(kind):
            return m.fail == kind or (m.fail == kind + "-ctl" and self.ctl_fail)
        if fails("top"):
            raise ImportFailed()
        if self.run_import_tests and m.has_test:
            self.out.append("test " + tag)
            if fails("test"):
                raise ImportFailed()
        if m.has_main:
            self.out.append("main " + tag)
            if fails("main"):
                raise ImportFailed()

def root_script(order, forms, tag="root"):
    lines = ["print 'root-start'"]
    for dep, form in zip(order, forms):
        lines += import_lines(tag, dep, form, True)
    lines += ["export from_root = 'r'", "from_root = 'changed locally'", "plain_top = 7", "plain_top = 8", "print 'root-end'"]
    return "\n".join(lines) + "\n"

def model_root(rt, order, forms, tag="root"):
    rt.out.append("root-start")
    for dep in order:
        try:
            k = rt.do_import(None, dep)
            rt.out.append("ok %s<-%s val_%s" % (tag, dep, k[0]))
        except ImportFailed:
            rt.out.append("err %s<-%s" % (tag, dep))
    rt.out.append("root-end")

def graphs(names, rng, tier):
    """Edge sets over `names` (self loops included)."""
    pairs = [(a, b) for a in names for b in names]
    if len(names) <= 3 or tier != "quick":      # thorough: all 65 536 edge sets on four modules as well
        for mask in range(1 << len(pairs)):
            yield [p for i, p in enumerate(pairs) if mask >> i & 1]
    else:
        seen = set()
        for _ in range(3000 if tier == "quick" else 60000):
            mask = rng.getrandbits(len(pairs))
            if rng.random() < 0.6:
                mask &= rng.getrandbits(len(pairs))
            if mask in seen:
                continue
            seen.add(mask)
            yield [p for i, p in enumerate(pairs) if mask >> i & 1]

def cases(tier, seed):
    rng = random.Random(seed * 7919 + 18)
    idx = 0
    for n in (1, 2, 3, 4):
        names = ["ma", "mb", "mc", "md"][:n]
        gl = list(graphs(names, rng, tier))
        for edges in gl:
            # each graph: a few seeded decorations (kinds, forms, guards, failure, settings, root order)
            reps = (8 if n <= 2 else 2) if tier == "quick" else (40 if n <= 2 else 8 if n == 3 else 2)
            for _ in range(reps):
                idx += 1
                r = random.Random(seed * 1000003 + idx)
                mods = []
                for nm in names:
                    deps = [(b, r.choice(FORMS), r.random() < 0.6) for a, b in edges if a == nm]
                    r.shuffle(deps)
                    mods.append(Mod(nm, kind=r.choice(["file", "file", "dir", "both"]), deps=deps, has_test=r.random() < 0.7, has_main=r.random() < 0.7))
                if r.random() < 0.5:
                    r.choice(mods).fail = r.choice(["top", "test", "main"])
                order = names[:]
                r.shuffle(order)
                if r.random() < 0.3:
                    order = order + [r.choice(names)]          # repeated import from the root
                if r.random() < 0.2:
                    order.insert(r.randrange(len(order) + 1), "missing")
                forms = [r.choice(FORMS) for _ in order]
                yield idx, mods, order, forms, {"run_import_tests": r.random() < 0.6, "export_top": r.random() < 0.4}

def run_case(w, base, idx, mods, order, forms, settings):
    d = os.path.join(base, "g%d" % idx)
    shutil.rmtree(d, ignore_errors=True)
    write_graph(d, mods)
    rt = Runtime(mods, settings["run_import_tests"])
    model_root(rt, order, forms)
    # top-level imports of a module that is loaded by then (nothing runs again): with top-level exporting they end up in the
    # exports map under the names they were bound to
    loaded = [m.name for m in mods if (m.name, "dir" if m.kind == "dir" else "file") in rt.cache]
    text = root_script(order, forms)
    top = None
    if loaded:
        top = loaded[idx % len(loaded)]
        text += "from %s import x_%s as top_y\nimport %s as top_alias\nfrom %s import x_%s\nprint 'top-imports {top_y} {x_%s}'\n" % (top, top, top, top, top, top)
        rt.out.append("top-imports val_%s val_%s" % (top, top))
        # the same with string items
        text += "from %s import 'x_%s' as top_ys\nimport '%s' as top_alias_s\nprint 'top-imports-str {top_ys} {top_alias_s.x_%s}'\n" % (top, top, top, top)
        rt.out.append("top-imports-str val_%s val_%s" % (top, top))
    path = os.path.join(d, "root.koto")
    open(path, "w").write(text)
    r = w.exec(text, timeout=30, limit_ms=8000, path=path, run_import_tests=settings["run_import_tests"], export_top=settings["export_top"], want_exports=True)
    want_exports = {"from_root": "r"}
    if settings["export_top"]:
        want_exports = {"from_root": "changed locally", "plain_top": "8"}
        if top:
            want_exports["top_y"] = "val_" + top
            want_exports["x_" + top] = "val_" + top
            want_exports["top_ys"] = "val_" + top
    got_out = r.get("stdout", "").split("\n")
    if got_out and got_out[-1] == "":
        got_out.pop()
    problems = []
    if r.get("panic"):
        problems.append("panic: %s" % r["panic"].get("message", "")[:100])
    if r.get("outcome") != "ok":
        problems.append("root script outcome %s: %s" % (r.get("outcome"), str(r.get("error"))[:120]))
    if got_out != rt.out:
        first = next((i for i, (a, b) in enumerate(zip(got_out, rt.out)) if a != b), min(len(got_out), len(rt.out)))
        problems.append("marker trace differs at line %d: real %r, model %r" % (first, got_out[first] if first < len(got_out) else None, rt.out[first] if first < len(rt.out) else None))
    ex = {k: v for k, v in (r.get("exports") or []) if not k.startswith("imp_")}
    for k, v in want_exports.items():
        if ex.get(k) != v:
            problems.append("export %s: host sees %r, expected %r" % (k, ex.get(k), v))
    if settings["export_top"] and top and "top_alias" not in ex:
        problems.append("export top_alias (import %s as top_alias at the top level) is missing; the host sees %s" % (top, sorted(ex)[:8]))
    if settings["export_top"] and top and "top_alias_s" not in ex:
        problems.append("export top_alias_s (import '%s' as top_alias_s at the top level) is missing; the host sees %s" % (top, sorted(ex)[:8]))
    if not settings["export_top"]:
        extra = [k for k in ex if k not in want_exports]
        if extra:
            problems.append("unexpected exports visible to the host: %s" % extra[:4])
    case = None
    if problems:
        files = {}
        for root_, _, fs in os.walk(d):
            for f in fs:
                files[os.path.relpath(os.path.join(root_, f), d)] = open(os.path.join(root_, f)).read()
        case = {"files": files, "settings": settings, "expected_trace": rt.out, "real_trace": got_out, "real_exports": ex}
    shutil.rmtree(d, ignore_errors=True)
    return problems, case, len(rt.out)

def run_history(w, base, idx, rng):
    """One persistent runtime, three scripts: import a module that fails (top level / @test / @main, controlled by a flag
    the host injected into the prelude), clear the flag and import again (the module runs again, completely), import once
    more from a third script (nothing runs again)."""
    d = os.path.join(base, "h%d" % idx)
    shutil.rmtree(d, ignore_errors=True)
    fail = rng.choice(["top-ctl", "test-ctl", "main-ctl"])
    dep_guarded = rng.random() < 0.5
    mods = [Mod("ma", kind=rng.choice(["file", "dir", "both"]), deps=[("mb", rng.choice(FORMS), dep_guarded)], fail=None), Mod("mb", kind=rng.choice(["file", "dir"]), fail=fail),
            Mod("mc", kind="file", deps=[("ma", rng.choice(FORMS), True), ("mb", rng.choice(FORMS), True)])]
    if mods[0].kind == "dir":
        mods[0].deps = []
    write_graph(d, mods)
    rit = rng.random() < 0.7
    inst = "c18-%d" % idx
    w.call({"op": "inst_new", "inst": inst, "run_import_tests": rit, "inject": {"ctl": {"fail": True}}})
    problems = []
    rt = Runtime(mods, rit)
    def step(order, tag, clear_flag=False):
        forms = [rng.choice(FORMS) for _ in order]
        text = ("ctl.fail = false\n" if clear_flag else "") + root_script(order, forms, tag=tag)
        path = os.path.join(d, tag + ".koto")
        open(path, "w").write(text)
        r = w.call({"op": "inst_run", "inst": inst, "src": text, "path": path, "run_import_tests": rit}, timeout=30)
        out = r.get("stdout", "").split("\n")
        if out and out[-1] == "": out.pop()
        before = len(rt.out)
        if clear_flag:
            rt.ctl_fail = False
        model_root(rt, order, forms, tag=tag)
        if r.get("panic"):
            problems.append("panic: %s" % r["panic"].get("message", "")[:100])
        if out != rt.out[before:]:
            problems.append("step %s: real %r, model %r" % (tag, out, rt.out[before:]))
    first = ["mb", "ma", "mc"]
    rng.shuffle(first)
    step(first, "s1")
    second = ["mb", "ma", "mc"]
    rng.shuffle(second)
    step(second, "s2", clear_flag=True)
    step(["mc", "ma", "mb"], "s3")
    w.call({"op": "inst_drop", "inst": inst})
    case = None
    if problems:
        case = {"mods": [(m.name, m.kind, m.deps, m.fail) for m in mods], "run_import_tests": rit, "orders": [first, second], "expected": rt.out}
    shutil.rmtree(d, ignore_errors=True)
    return problems, case

NAME_POOL = ["data", "data.v2", "data.v2.x", "data.koto", "a-b", "a b", "dät", "x.y", "x", ".hidden", "UPPER", "upper", "v1.0", "v1"]
def run_names(w, base, idx, rng):
    """Module names that are not identifiers (string imports): `name` resolves to name.koto, then name/main.koto - the whole
    name counts, whatever characters it contains; a name without its own file is missing even if a file exists for a prefix."""
    d = os.path.join(base, "n%d" % idx)
    shutil.rmtree(d, ignore_errors=True)
    os.makedirs(d)
    present = {}
    for nm in rng.sample(NAME_POOL, rng.randint(2, 6)):
        kind = rng.choice(["file", "dir", "both"])
        present[nm] = kind
        if kind in ("file", "both") and not os.path.isdir(os.path.join(d, nm + ".koto")):
            open(os.path.join(d, nm + ".koto"), "w").write("export who = 'file:%s'\n" % nm)
        if kind in ("dir", "both") and not os.path.isfile(os.path.join(d, nm)):
            os.makedirs(os.path.join(d, nm), exist_ok=True)
            open(os.path.join(d, nm, "main.koto"), "w").write("export who = 'dir:%s'\n" % nm)
    asked = rng.sample(NAME_POOL, rng.randint(3, 8))
    lines, want = [], []
    for k, nm in enumerate(asked):
        lines += ["r%d = try" % k, "  from '%s' import who" % nm, "  who", "catch _", "  'missing'", "print '%s -> {r%d}'" % (nm, k)]
        # (directories named like files: `data.koto/main.koto` is what `data.koto` means when there is no data.koto.koto)
        if os.path.isfile(os.path.join(d, nm + ".koto")): want.append("%s -> file:%s" % (nm, nm))
        elif os.path.isfile(os.path.join(d, nm, "main.koto")): want.append("%s -> dir:%s" % (nm, nm))
        else: want.append("%s -> missing" % nm)
    text = "\n".join(lines) + "\n"
    path = os.path.join(d, "root.koto")
    open(path, "w").write(text)
    r = w.exec(text, timeout=30, limit_ms=8000, path=path)
    out = (r.get("stdout") or "").split("\n")
    if out and out[-1] == "": out.pop()
    problems = []
    if r.get("panic"):
        problems.append("panic: %s" % r["panic"].get("message", "")[:100])
    if out != want:
        first = next((i for i, (a, b) in enumerate(zip(out, want)) if a != b), min(len(out), len(want)))
        problems.append("module name resolution: real %r, expected %r (files present: %s)" % (out[first] if first < len(out) else None, want[first] if first < len(want) else None, sorted(present.items())))
    case = {"present": present, "asked": asked, "expected": want, "real": out, "root": text} if problems else None
    shutil.rmtree(d, ignore_errors=True)
    return problems, case

def _shard(shard, n, tier, seed):
    w = Worker()
    base = os.path.join(VERIF, "scratch", "c18", "%d_%d_%d" % (os.getpid(), seed, shard))
    os.makedirs(base, exist_ok=True)
    rep = {"violations": [], "graphs": 0, "histories": 0, "trace_lines": 0, "by_size": {}, "failing_module": 0, "samples": []}
    try:
        for idx, mods, order, forms, settings in cases(tier, seed):
            if idx % n != shard:
                continue
            problems, case, lines = run_case(w, base, idx, mods, order, forms, settings)
            rep["graphs"] += 1
            rep["trace_lines"] += lines
            rep["by_size"][str(len(mods))] = rep["by_size"].get(str(len(mods)), 0) + 1
            rep["failing_module"] += 1 if any(m.fail for m in mods) else 0
            if problems:
                rep["violations"].append({"key": "modules:%s" % sha(repr(case["files"])), "summary": "module graph on %d modules: %s" % (len(mods), "; ".join(problems)[:300]), "case": case})
            if not rep["samples"] and len(mods) == 3:
                rep["samples"].append({"modules": [(m.name, m.kind, [x[0] for x in m.deps], m.fail) for m in mods], "root_order": order, "settings": settings})
        for h in range(shard, 600 if tier == "quick" else 30000, n):
            problems, case = run_history(w, base, h, random.Random(seed * 1000003 + h))
            rep["histories"] += 1
            if problems:
                rep["violations"].append({"key": "module-history:%s" % sha(repr(case)), "summary": "re-import history: %s" % "; ".join(problems)[:300], "case": case})
        for h in range(shard, 400 if tier == "quick" else 30000, n):
            problems, case = run_names(w, base, h, random.Random(seed * 1000033 + h))
            rep["name_cases"] = rep.get("name_cases", 0) + 1
            if problems:
                rep["violations"].append({"key": "module-names:%s" % sha(repr(case)), "summary": "; ".join(problems)[:400], "case": case})
    finally:
        w.close()
        shutil.rmtree(base, ignore_errors=True)
    return rep

def run(tier, seed):
    chk = Check(PID, tier, seed)
    if not chk.build("rc"):
        return chk.finish({"evaluations": 0, "distinct_nontrivial": 0, "rule": "", "samples": []})
    cov = {"evaluations": 0, "distinct_nontrivial": 0, "samples": [], "streams": {}}
    st = {"graphs": 0, "histories": 0, "marker_lines_compared": 0, "graphs_by_module_count": {}, "graphs_with_a_failing_module": 0}
    for s in fan_out(_shard, tier=tier, seed=seed):
        chk.merge_shard(s)
        if "harness_error" in s:
            continue
        st["name_cases"] = st.get("name_cases", 0) + s.get("name_cases", 0)
        st["graphs"] += s["graphs"]; st["histories"] += s["histories"]; st["marker_lines_compared"] += s["trace_lines"]; st["graphs_with_a_failing_module"] += s["failing_module"]
        for k, v in s["by_size"].items():
            st["graphs_by_module_count"][k] = st["graphs_by_module_count"].get(k, 0) + v
        if s["samples"] and not cov["samples"]:
            cov["samples"] = s["samples"]
    cov["streams"]["module-graphs"] = st
    cov["evaluations"] = st["graphs"] + st["histories"] + st.get("name_cases", 0)
    cov["distinct_nontrivial"] = st["graphs"] + st["histories"] + st.get("name_cases", 0)
    # witness of F-M1 (needs a module file): the second `import bad` in the same scope after a failed one
    w = Worker()
    d = os.path.join(VERIF, "scratch", "c18", "witness_%d" % os.getpid())
    shutil.rmtree(d, ignore_errors=True)
    os.makedirs(d)
    open(os.path.join(d, "bad.koto"), "w").write("print 'top bad'\nthrow 'bad fails'\n")
    text = "f = ||\n  try\n    import bad\n    print 'first ok'\n  catch _\n    print 'first failed'\n  try\n    import bad\n    print 'second ok {bad}'\n  catch _\n    print 'second failed'\nf()\n"
    r = w.exec(text, timeout=20, path=os.path.join(d, "root.koto"))
    want = "top bad\nfirst failed\ntop bad\nsecond failed\n"
    if r.get("stdout") != want:
        chk.violation("witness:F-M1", "witness of F-M1 still fails: expected %r, got %r" % (want, r.get("stdout")), {"src": text, "module bad.koto": "print 'top bad'\nthrow 'bad fails'\n", "real": r.get("stdout")})
    cov["witnesses_replayed"] = 1
    shutil.rmtree(d, ignore_errors=True)
    w.close()
    cov["rule"] = ("all edge sets (self loops included) on 1, 2 and 3 modules%s; per graph seeded module kinds (file / directory / both), import form and guard per edge, "
                   "at most one failing module (top level / @test / @main), optional @test and @main, root import order with repeats and a missing module, run_import_tests and export_top_level_ids; the root "
                   "imports each module inside its own function under try. Compared: the complete marker trace (top-start / ok / err / top-end / test / main), the imported values (exported value, never the "
                   "local reassignment; directory modules see their own directory's files, not the decoys), the host's exports map. histories: one runtime, three scripts over three modules: imports while one module fails (flag in the prelude), "
                   "flag cleared and import again (the failed module and its failed importers run again, completely; succeeded ones do not), third script (nothing runs again)." % (", 3 000 seeded edge sets on 4 modules" if tier == "quick" else " and all 65 536 edge sets on 4 modules",))
    return chk.finish(cov, assumptions=["imports sit in function scopes of their own: repeating `import m` in one scope after a failure is finding F-M1 (witness replay)",
                                         "module files are written below /verif/scratch/c18 and removed after each case"])
