"""Value domain of the reference model (written from docs/language_guide.md; pinned points are
listed in DESIGN.md appendix A). Shares no code with koto."""
import math
from decimal import Decimal

I64_MIN, I64_MAX = -(1 << 63), (1 << 63) - 1

def wrap(n):
    n &= (1 << 64) - 1
    return n - (1 << 64) if n >= (1 << 63) else n

class KList:
    __slots__ = ("items",)
    def __init__(self, items): self.items = list(items)
class KTuple:
    __slots__ = ("items",)
    def __init__(self, items): self.items = tuple(items)
class KMap:
    __slots__ = ("d", "meta")
    def __init__(self, d=None, meta=None):
        self.d = dict(d or {})   # insertion ordered; keys are hashable model keys (see key_of)
        self.meta = meta          # dict metakey -> value, or None
class KRange:
    __slots__ = ("lo", "hi", "incl")
    def __init__(self, lo, hi, incl): self.lo, self.hi, self.incl = lo, hi, incl
class KFn:
    __slots__ = ("params", "variadic", "body", "is_gen", "captures", "name", "defaults")
    def __init__(self, params, variadic, body, is_gen, captures, defaults):
        self.params, self.variadic, self.body, self.is_gen, self.captures, self.defaults = params, variadic, body, is_gen, captures, defaults
class KNative:
    __slots__ = ("name", "fn")
    def __init__(self, name, fn): self.name, self.fn = name, fn
class KIter:
    """Model iterator: wraps a Python generator object; copying is not supported on these."""
    __slots__ = ("gen", "done")
    def __init__(self, gen): self.gen, self.done = gen, False
    def next(self):
        if self.done:
            return StopIteration
        try:
            return next(self.gen)
        except StopIteration:
            self.done = True
            return StopIteration

class RuntimeErr(Exception):
    """A runtime error raised by the language itself (never a user throw). tag is diagnostic only."""
    def __init__(self, tag, msg=""):
        super().__init__(tag + ": " + msg)
        self.tag, self.msg = tag, msg
class Thrown(Exception):
    def __init__(self, value):
        super().__init__("thrown")
        self.value = value
class ModelLimit(Exception):
    """The model gave up (step budget, unsupported corner): the case is discarded, never judged."""

def is_int(v): return type(v) is int
def is_float(v): return type(v) is float
def is_num(v): return type(v) is int or type(v) is float
def is_str(v): return type(v) is str
def is_bool(v): return type(v) is bool

def type_name(v):
    if v is None: return "Null"
    if is_bool(v): return "Bool"
    if is_num(v): return "Number"
    if is_str(v): return "String"
    if isinstance(v, KList): return "List"
    if isinstance(v, KTuple): return "Tuple"
    if isinstance(v, KMap):
        if v.meta is not None:
            t = v.meta.get("@type")
            return t if is_str(t) else "Object"
        return "Map"
    if isinstance(v, KRange): return "Range"
    if isinstance(v, KFn): return "Generator" if v.is_gen else "Function"
    if isinstance(v, KNative): return "Function"
    if isinstance(v, KIter): return "Iterator"
    return "?"

def truthy(v):
    return not (v is None or v is False)

def float_str(f):
    if math.isnan(f): return "NaN"
    if math.isinf(f): return "inf" if f > 0 else "-inf"
    if f == math.floor(f):
        return "%.1f" % f          # exact integer digits followed by .0
    r = repr(f)
    # Both Python and Rust print the shortest digit string that round-trips. When the exact binary value lies exactly
    # half-way between two such strings, Python rounds half-even and Rust's printer rounds half away from zero.
    try:
        exact = Decimal(f)
        short = Decimal(r)
        n = len(short.as_tuple().digits)
        ed = exact.normalize().as_tuple().digits
        if len(ed) == n + 1 and ed[-1] == 5:
            import decimal
            q = exact.quantize(Decimal(1).scaleb(short.as_tuple().exponent), rounding=decimal.ROUND_HALF_UP)
            if float(q) == f:
                r = format(q, "f") if "e" not in r and "E" not in r else str(q)
    except Exception:
        pass
    if "e" in r or "E" in r:
        return format(Decimal(r), "f")
    return r

def display(v, contained=False, interp=None):
    if v is None: return "null"
    if v is True: return "true"
    if v is False: return "false"
    if is_int(v): return str(v)
    if is_float(v): return float_str(v)
    if is_str(v): return "'" + v + "'" if contained else v
    if isinstance(v, KList): return "[" + ", ".join(display(x, True, interp) for x in v.items) + "]"
    if isinstance(v, KTuple): return "(" + ", ".join(display(x, True, interp) for x in v.items) + ")"
    if isinstance(v, KMap):
        if v.meta is not None and interp is not None and "@display" in v.meta:
            r = interp.call(v.meta["@display"], [], self_value=v)
            if not is_str(r):
                raise RuntimeErr("type", "@display must return a string")
            return r
        if v.meta is not None and "@type" in v.meta and is_str(v.meta["@type"]):
            # objects without @display: pinned rendering is outside the compared set
            raise ModelLimit("display of an object without @display")
        return "{" + ", ".join(display_key(k) + ": " + display(x, True, interp) for k, x in v.d.items()) + "}"
    if isinstance(v, KRange):
        lo = "" if v.lo is None else str(v.lo)
        hi = "" if v.hi is None else str(v.hi)
        return lo + (".." if not v.incl else "..=") + hi
    if isinstance(v, (KFn, KNative)): return "||"
    if isinstance(v, KIter): return "Iterator"
    raise ModelLimit("display of " + repr(v))

def display_key(k):
    # model keys: ('s', str) | ('n', number) | ('b', bool) | ('null',) | ('t', tuple of keys) | ('r', lo, hi, incl)
    if k[0] == "s": return k[1]
    if k[0] == "n": return display(k[1])
    if k[0] == "b": return "true" if k[1] else "false"
    if k[0] == "null": return "null"
    if k[0] == "t": return "(" + ", ".join(display_key_contained(x) for x in k[1]) + ")"
    if k[0] == "r": return display(KRange(k[1], k[2], k[3]))
    raise ModelLimit("key display")

def display_key_contained(k):
    if k[0] == "s": return "'" + k[1] + "'"
    return display_key(k)

def key_of(v):
    """Hashable model key for a value used as a map key. Numbers: int and float keys that are equal
    are *one* key per the language (== decides) - except that the pinned tree hashes by bits (F-V1),
    so generated programs never use float keys."""
    if v is None: return ("null",)
    if is_bool(v): return ("b", v)
    if is_int(v): return ("n", v)
    if is_float(v):
        raise ModelLimit("float map key")
    if is_str(v): return ("s", v)
    if isinstance(v, KTuple): return ("t", tuple(key_of(x) for x in v.items))
    if isinstance(v, KRange): return ("r", v.lo, v.hi, v.incl)
    raise RuntimeErr("type", "unhashable key " + type_name(v))

def value_of_key(k):
    if k[0] == "s": return k[1]
    if k[0] == "n": return k[1]
    if k[0] == "b": return k[1]
    if k[0] == "null": return None
    if k[0] == "t": return KTuple([value_of_key(x) for x in k[1]])
    if k[0] == "r": return KRange(k[1], k[2], k[3])

def num_eq(a, b):
    if is_int(a) and is_int(b): return a == b
    return float(a) == float(b)

def num_cmp(a, b):
    """Total order of KNumber: NaN sorts above every number (pinned)."""
    if is_int(a) and is_int(b):
        return (a > b) - (a < b)
    fa, fb = float(a), float(b)
    if math.isnan(fa) or math.isnan(fb):
        if math.isnan(fa) and math.isnan(fb): return 0
        return 1 if math.isnan(fa) else -1
    return (fa > fb) - (fa < fb)

def equal(a, b, interp=None, depth=0):
    if depth > 64:
        raise ModelLimit("deep equality")
    if is_num(a) and is_num(b) and not is_bool(a) and not is_bool(b): return num_eq(a, b)
    if a is None or b is None: return a is None and b is None
    if is_bool(a) or is_bool(b): return is_bool(a) and is_bool(b) and a == b
    if is_str(a) or is_str(b): return is_str(a) and is_str(b) and a == b
    if isinstance(a, KMap) and a.meta is not None and "@==" in a.meta and interp is not None:
        return truthy_bool(interp.call(a.meta["@=="], [b], self_value=a))
    if isinstance(a, KList) and isinstance(b, KList):
        return len(a.items) == len(b.items) and all(equal(x, y, interp, depth + 1) for x, y in zip(a.items, b.items))
    if isinstance(a, KTuple) and isinstance(b, KTuple):
        return len(a.items) == len(b.items) and all(equal(x, y, interp, depth + 1) for x, y in zip(a.items, b.items))
    if isinstance(a, KMap) and isinstance(b, KMap):
        if len(a.d) != len(b.d): return False
        for k, x in a.d.items():
            if k not in b.d or not equal(x, b.d[k], interp, depth + 1): return False
        return True
    if isinstance(a, KRange) and isinstance(b, KRange):
        return (a.lo, a.hi, a.incl) == (b.lo, b.hi, b.incl)
    if isinstance(a, (KFn, KNative)) and isinstance(b, (KFn, KNative)):
        if a is b: return True
        raise ModelLimit("function equality")
    return False

def truthy_bool(v):
    if not is_bool(v):
        raise RuntimeErr("type", "expected Bool")
    return v

def range_bounds(r, size):
    """Resolves a range against a container size for slicing: (start, end) clamped like the guide
    says for range indices; raises for negative bounds."""
    lo = 0 if r.lo is None else r.lo
    hi = size if r.hi is None else (r.hi + 1 if r.incl else r.hi)
    return lo, hi

def range_values(r):
    if r.lo is None or r.hi is None:
        raise ModelLimit("unbounded range iteration")
    lo, hi = r.lo, r.hi
    if lo <= hi:
        return range(lo, hi + 1 if r.incl else hi)
    # descending ranges are empty (docs/core_lib/range.md)
    return range(0)
