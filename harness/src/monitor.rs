//! Online VM monitor (DESIGN.md 3.4.4), fed by the koto_verif instruction observer

use koto_bytecode::{Chunk, Instruction, InstructionReader};
use koto_runtime::{Ptr, verif};
use std::cell::RefCell;
use std::collections::HashMap;

pub struct Monitor {
    pub op_counts: [u64; 256],
    pub instructions: u64,
    pub faults: Vec<(String, String)>,
    pub timeout_armed: u64,
    pub timeout_polled: u64,
    pub timeout_fired: Vec<f64>,
    pub max_call_depth: usize,
    pub max_builders: usize,
    boundaries: HashMap<(usize, usize), Vec<bool>>,
    pub chunks_seen: usize,
    pub enabled_checks: bool,
}

impl Default for Monitor {
    fn default() -> Self {
        Self {
            op_counts: [0; 256],
            instructions: 0,
            faults: Vec::new(),
            timeout_armed: 0,
            timeout_polled: 0,
            timeout_fired: Vec::new(),
            max_call_depth: 0,
            max_builders: 0,
            boundaries: HashMap::new(),
            chunks_seen: 0,
            enabled_checks: true,
        }
    }
}

fn compute_boundaries(chunk: &Chunk) -> Vec<bool> {
    let len = chunk.bytes.len();
    let mut result = vec![false; len + 1];
    let copy: Ptr<Chunk> = Ptr::from(Chunk {
        bytes: chunk.bytes.clone(),
        constants: Default::default(),
        path: None,
        debug_info: Default::default(),
    });
    let mut reader = InstructionReader::new(copy);
    loop {
        let start = reader.ip;
        if start >= len {
            break;
        }
        result[start] = true;
        match reader.next() {
            Some(Instruction::Error { .. }) | None => break,
            Some(_) => {
                if reader.ip <= start {
                    break;
                }
            }
        }
    }
    result
}

thread_local! {
    pub static MONITOR: RefCell<Monitor> = RefCell::new(Monitor::default());
}

impl Monitor {
    fn fault(&mut self, rule: &str, detail: String) {
        if self.faults.len() < 20 {
            self.faults.push((rule.to_string(), detail));
        }
    }

    fn on_event(&mut self, event: &verif::Event) {
        match event {
            verif::Event::Instruction {
                chunk,
                ip,
                instruction,
                registers_len,
                register_base,
                required_registers,
                sequence_builders_len,
                string_builders_len,
                call_stack_len,
            } => {
                self.instructions += 1;
                // Safety: the pointer refers to the chunk that the VM's reader holds for the
                // duration of the event
                let chunk_ref: &Chunk = unsafe { &**chunk };
                let ip = *ip as usize;
                if let Some(op) = chunk_ref.bytes.get(ip) {
                    self.op_counts[*op as usize] += 1;
                }
                self.max_call_depth = self.max_call_depth.max(*call_stack_len);
                self.max_builders = self
                    .max_builders
                    .max(*sequence_builders_len + *string_builders_len);
                if !self.enabled_checks {
                    return;
                }
                let key = (*chunk as usize, chunk_ref.bytes.len());
                let mut on_boundary = match self.boundaries.get(&key) {
                    Some(b) => b.get(ip).copied().unwrap_or(false),
                    None => {
                        self.chunks_seen += 1;
                        let b = compute_boundaries(chunk_ref);
                        let r = b.get(ip).copied().unwrap_or(false);
                        if self.boundaries.len() > 4096 {
                            self.boundaries.clear();
                        }
                        self.boundaries.insert(key, b);
                        r
                    }
                };
                if !on_boundary {
                    // the address may have been reused by another chunk of the same size
                    let b = compute_boundaries(chunk_ref);
                    on_boundary = b.get(ip).copied().unwrap_or(false);
                    self.boundaries.insert(key, b);
                }
                if !on_boundary {
                    self.fault(
                        "executed-off-boundary",
                        format!("ip {ip} of a chunk with {} bytes", chunk_ref.bytes.len()),
                    );
                }
                match instruction {
                    Instruction::Error { message } => {
                        self.fault("error-instruction-executed", message.clone());
                    }
                    Instruction::NewFrame { .. } => {}
                    _ => {
                        if *registers_len < *register_base + *required_registers as usize {
                            self.fault(
                                "register-window",
                                format!(
                                    "ip {ip}: registers.len {registers_len} < base {register_base} + required {required_registers}"
                                ),
                            );
                        }
                    }
                }
            }
            verif::Event::TimeoutArmed { .. } => self.timeout_armed += 1,
            verif::Event::TimeoutPolled => self.timeout_polled += 1,
            verif::Event::TimeoutFired { overshoot } => {
                self.timeout_fired.push(overshoot.as_secs_f64())
            }
        }
    }
}

pub fn install() {
    verif::set_observer(|event| {
        MONITOR.with(|m| {
            if let Ok(mut m) = m.try_borrow_mut() {
                m.on_event(event)
            }
        })
    });
}

/// Resets the per-run counters (keeps the boundary cache) and returns the previous snapshot
pub struct Snapshot {
    pub instructions: u64,
    pub faults: Vec<(String, String)>,
    pub timeout_armed: u64,
    pub timeout_polled: u64,
    pub timeout_fired: Vec<f64>,
    pub max_call_depth: usize,
}

pub fn take_run() -> Snapshot {
    MONITOR.with(|m| {
        let mut m = m.borrow_mut();
        let s = Snapshot {
            instructions: m.instructions,
            faults: std::mem::take(&mut m.faults),
            timeout_armed: m.timeout_armed,
            timeout_polled: m.timeout_polled,
            timeout_fired: std::mem::take(&mut m.timeout_fired),
            max_call_depth: m.max_call_depth,
        };
        m.instructions = 0;
        m.timeout_armed = 0;
        m.timeout_polled = 0;
        m.max_call_depth = 0;
        s
    })
}

/// Names of opcodes executed so far in this process, with counts
pub fn opcode_counts() -> Vec<(String, u64)> {
    MONITOR.with(|m| {
        let m = m.borrow();
        let mut out = Vec::new();
        for (i, c) in m.op_counts.iter().enumerate() {
            if *c > 0 {
                let op = koto_bytecode::Op::from(i as u8);
                out.push((format!("{op:?}"), *c));
            }
        }
        out
    })
}

/// The fault classes that count as 'internal fault' when they show up as runtime errors
pub fn classify_internal_error(message: &str) -> Option<&'static str> {
    const MARKERS: &[(&str, &str)] = &[
        ("an unexpected error occurred, please report this as a bug", "unexpected-error"),
        ("missing sequence builder", "missing-sequence-builder"),
        ("missing string builder", "missing-string-builder"),
        ("empty call stack", "empty-call-stack"),
        ("Unexpected opcode", "unexpected-opcode"),
        ("Instruction access out of bounds", "instruction-out-of-bounds"),
        ("function not found while attempting to capture", "capture-without-function"),
        ("Overflow of the current frame's register stack", "register-stack-overflow"),
        ("Out of bounds access, index", "register-out-of-bounds"),
    ];
    for (m, tag) in MARKERS {
        if message.contains(m) {
            return Some(tag);
        }
    }
    None
}
