//! Small request/response operations: tokens, format, canonical AST

use crate::panics;
use koto_format::FormatOptions;
use koto_lexer::Lexer;
use koto_parser::{Ast, AstIndex, Constant, Parser, ParserOptions};
use serde_json::{Value, json};

pub fn tokens(src: &str) -> Value {
    let r = panics::guarded(|| {
        let mut out = Vec::new();
        let mut count = 0usize;
        for t in Lexer::new(src) {
            out.push(json!([
                t.source_bytes.start,
                t.source_bytes.end,
                format!("{:?}", t.token)
            ]));
            count += 1;
            if count > src.len() + 2 {
                break;
            }
        }
        out
    });
    match r {
        Ok(t) => json!({"tokens": t}),
        Err(p) => json!({"panic": panics::to_json(&p)}),
    }
}

pub fn format_options(v: &Value) -> FormatOptions {
    let mut o = FormatOptions::default();
    if let Some(x) = v.get("line_length").and_then(|x| x.as_u64()) {
        o.line_length = x as u8;
    }
    if let Some(x) = v.get("indent_width").and_then(|x| x.as_u64()) {
        o.indent_width = x as u8;
    }
    if let Some(x) = v.get("chain_break_threshold").and_then(|x| x.as_u64()) {
        o.chain_break_threshold = x as u8;
    }
    if let Some(x) = v.get("always_indent_arms").and_then(|x| x.as_bool()) {
        o.always_indent_arms = x;
    }
    o
}

pub fn format(src: &str, options: &Value) -> Value {
    let o = format_options(options);
    match panics::guarded(|| koto_format::format(src, o)) {
        Ok(Ok(s)) => json!({"ok": true, "out": s}),
        Ok(Err(e)) => {
            let shown = panics::guarded(|| e.to_string()).unwrap_or_default();
            let is_parse = matches!(e.error, koto_format::ErrorKind::ParserError(_) | koto_format::ErrorKind::TokenError);
            json!({"ok": false, "error": shown, "parse_error": is_parse})
        }
        Err(p) => json!({"panic": panics::to_json(&p)}),
    }
}

#[derive(Clone, Copy, Default)]
pub struct CanonOptions {
    pub strip_nested: bool,
    pub strip_cosmetic_flags: bool,
    pub strip_quotes: bool,
    pub process_escape_codes: bool,
}

fn constant_text(ast: &Ast, index: usize) -> String {
    match ast.constants().get(index) {
        Some(Constant::Str(s)) => format!("S{s:?}"),
        Some(Constant::F64(f)) => format!("F{:016x}", f.to_bits()),
        Some(Constant::I64(i)) => format!("I{i}"),
        None => "?missing-constant".into(),
    }
}

fn strip_field(s: &str, field: &str) -> String {
    // removes `field: <value>` where value is a bracketed list, or a token up to , or }
    let mut out = String::with_capacity(s.len());
    let mut rest = s;
    let pat = format!("{field}: ");
    while let Some(i) = rest.find(&pat) {
        out.push_str(&rest[..i]);
        let after = &rest[i + pat.len()..];
        let bytes = after.as_bytes();
        let mut j = 0;
        if !bytes.is_empty() && bytes[0] == b'[' {
            let mut depth = 0i32;
            while j < bytes.len() {
                match bytes[j] {
                    b'[' => depth += 1,
                    b']' => {
                        depth -= 1;
                        if depth == 0 {
                            j += 1;
                            break;
                        }
                    }
                    _ => {}
                }
                j += 1;
            }
        } else {
            while j < bytes.len() && bytes[j] != b',' && bytes[j] != b'}' && bytes[j] != b')' {
                j += 1;
            }
        }
        // also swallow a following ", "
        let mut k = j;
        if after[k..].starts_with(", ") {
            k += 2;
        }
        rest = &after[k..];
    }
    out.push_str(rest);
    out
}

fn canon_node(ast: &Ast, index: AstIndex, o: &CanonOptions, depth: usize, out: &mut String) {
    if depth > 2000 {
        out.push_str("?too-deep");
        return;
    }
    let node = &ast.node(index).node;
    if o.strip_nested {
        if let koto_parser::Node::Nested(inner) = node {
            canon_node(ast, *inner, o, depth + 1, out);
            return;
        }
    }
    if o.strip_cosmetic_flags {
        // a block holding a single expression is the indented spelling of that expression
        if let koto_parser::Node::Block(expressions) = node {
            if expressions.len() == 1 {
                canon_node(ast, expressions[0], o, depth + 1, out);
                return;
            }
        }
    }
    let mut d = format!("{node:?}");
    d = strip_field(&d, "local_count");
    d = strip_field(&d, "accessed_non_locals");
    if o.strip_cosmetic_flags {
        d = strip_field(&d, "parentheses");
        d = strip_field(&d, "with_parens");
        d = strip_field(&d, "inline");
        d = strip_field(&d, "braces");
    }
    if o.strip_quotes {
        d = strip_field(&d, "quote");
    }
    // substitute AstIndex(n) and ConstantIndex(n)
    let mut rest = d.as_str();
    loop {
        let a = rest.find("AstIndex(");
        let c = rest.find("ConstantIndex(");
        let (pos, is_ast) = match (a, c) {
            (None, None) => break,
            (Some(a), None) => (a, true),
            (None, Some(c)) => (c, false),
            (Some(a), Some(c)) => {
                if a < c {
                    (a, true)
                } else {
                    (c, false)
                }
            }
        };
        out.push_str(&rest[..pos]);
        let open = pos + if is_ast { "AstIndex(".len() } else { "ConstantIndex(".len() };
        let close = rest[open..].find(')').map(|x| x + open).unwrap_or(rest.len());
        let n: usize = rest[open..close].parse().unwrap_or(usize::MAX);
        if is_ast {
            if n < ast.nodes().len() {
                out.push('<');
                canon_node(ast, AstIndex::from(n as u32), o, depth + 1, out);
                out.push('>');
            } else {
                out.push_str("?bad-index");
            }
        } else {
            out.push_str(&constant_text(ast, n));
        }
        rest = &rest[(close + 1).min(rest.len())..];
    }
    out.push_str(rest);
}

pub fn canon_ast(ast: &Ast, o: &CanonOptions) -> String {
    let mut out = String::new();
    if let Some(entry) = ast.entry_point() {
        canon_node(ast, entry, o, 0, &mut out);
    }
    out
}

pub fn canon_options(v: &Value) -> CanonOptions {
    let b = |k: &str| v.get(k).and_then(|x| x.as_bool()).unwrap_or(false);
    CanonOptions {
        strip_nested: b("strip_nested"),
        strip_cosmetic_flags: b("strip_cosmetic"),
        strip_quotes: b("strip_quotes"),
        process_escape_codes: v.get("process_escape_codes").and_then(|x| x.as_bool()).unwrap_or(true),
    }
}

pub fn parse(src: &str, options: &Value) -> Value {
    let o = canon_options(options);
    let r = panics::guarded(|| {
        Parser::parse_with_options(
            src,
            ParserOptions {
                process_escape_codes: o.process_escape_codes,
            },
        )
        .map(|ast| (canon_ast(&ast, &o), ast.nodes().len()))
    });
    match r {
        Ok(Ok((canon, n))) => json!({"ok": true, "canon": canon, "nodes": n}),
        Ok(Err(e)) => {
            let shown = panics::guarded(|| e.to_string()).unwrap_or_default();
            json!({"ok": false, "error": shown, "indent_error": e.is_indentation_error(),
                   "span": [e.span.start.line, e.span.start.column, e.span.end.line, e.span.end.column]})
        }
        Err(p) => json!({"panic": panics::to_json(&p)}),
    }
}

/// Lists the callable entries of the prelude: {"module": ["fn", ...], "": ["top-level fn", ...]}
pub fn prelude() -> Value {
    use koto::prelude::*;
    let koto = Koto::default();
    let mut out = serde_json::Map::new();
    let mut top = Vec::new();
    for (k, v) in koto.prelude().data().iter() {
        match v {
            KValue::Map(m) => {
                let mut names = Vec::new();
                for (k2, v2) in m.data().iter() {
                    if matches!(v2, KValue::NativeFunction(_) | KValue::Function(_)) {
                        names.push(json!(k2.to_string()));
                    }
                }
                out.insert(k.to_string(), Value::Array(names));
            }
            KValue::NativeFunction(_) | KValue::Function(_) => top.push(json!(k.to_string())),
            _ => {}
        }
    }
    out.insert("".into(), Value::Array(top));
    Value::Object(out)
}
