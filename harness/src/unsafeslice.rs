//! Sanitizer workload (Miri / ASan): drives the `unsafe` blocks of the crates - StringSlice
//! (get_unchecked on sub-slices), KTuple sub-tuples, the constant pool's string access, the
//! instruction reader and Op::from(u8) - through small scripts on one Koto instance and through
//! direct API calls. Results are compared with plain Rust so that a wrong read is also caught
//! when the sanitizer stays silent.
use koto::prelude::*;
use serde_json::{Value, json};

pub fn run(scale: usize) -> Value {
    let mut faults: Vec<String> = Vec::new();
    let mut ops = 0u64;
    // 1. Op::from for every byte
    for b in 0..=255u8 {
        let op = koto_bytecode::Op::from(b);
        let _ = format!("{op:?}");
        ops += 1;
    }
    // 2. strings and tuples on one instance: sub-slices of sub-slices, host-owned strings
    let mut koto = Koto::default();
    let texts = ["héllo wörld", "a€b😀c", "e\u{301}x\r\ny", "", "abc"];
    for (ti, t) in texts.iter().enumerate() {
        koto.prelude().insert("s", *t);
        let n = t.len();
        for a in 0..=n.min(4 * scale) {
            for b in a..=n.min(a + 3 * scale) {
                let script = format!("x = try\n  s[{a}..{b}]\ncatch _\n  '#E'\ny = try\n  ('<' + s + '>')[{}..{}][1..]\ncatch _\n  '#E'\n(x, y)", a, b + 2);
                ops += 1;
                match koto.compile_and_run(script.as_str()) {
                    Ok(KValue::Tuple(r)) => {
                        let want = t.get(a..b).map(|s| s.to_string()).unwrap_or_else(|| "#E".to_string());
                        match &r[0] {
                            KValue::Str(s) if s.as_str() == want => {}
                            other => faults.push(format!("text {ti} [{a}..{b}]: got {:?}, want {want:?}", koto.value_to_string(other.clone()).unwrap_or_default())),
                        }
                        if let KValue::Str(s) = &r[1] {
                            if std::str::from_utf8(s.as_bytes()).is_err() {
                                faults.push(format!("text {ti}: nested slice is not UTF-8"));
                            }
                        }
                    }
                    Ok(_) => faults.push("unexpected result kind".into()),
                    Err(e) => faults.push(format!("script failed: {e}")),
                }
            }
        }
    }
    // 3. tuples: sub-tuples of sub-tuples, unpacking, slices
    let script = "t = (1, 2, 3, 4, 5, 6)\nu = t[1..5]\nv = u[1..3]\na, b = v\nw = (t[4..], t[..2], u[3..], v[..0])\nm = match u\n  (first, rest...) then (first, rest)\n(u, v, a, b, w, m, size v, v.contains(3), u.first(), u.last())";
    for _ in 0..scale {
        ops += 1;
        match koto.compile_and_run(script) {
            Ok(v) => {
                let shown = koto.value_to_string(v).unwrap_or_default();
                let want = "((2, 3, 4, 5), (3, 4), 3, 4, ((5, 6), (1, 2), (5), ()), (2, (3, 4, 5)), 2, true, 2, 5)";
                if shown != want {
                    faults.push(format!("tuple script: got {shown}, want {want}"));
                }
            }
            Err(e) => faults.push(format!("tuple script failed: {e}")),
        }
    }
    // 4. constant pool and instruction reader: programs with many constants of every kind
    let mut src = String::new();
    // two locals per round: stay well below the 255 registers of a frame
    for i in 0..(40 * scale).min(100) {
        src.push_str(&format!("c{i} = 'str{i}é' + '{i}'\nn{i} = {i}.5 + {}\n", i * 1000));
    }
    src.push_str("f = |a, b = 2, rest...| (a, b, rest)\nr = f 1\ng = ||\n  yield 'y1'\n  yield 'y2'\n(c0, n1, r, g().to_tuple(), 'x{c1:>8}')");
    ops += 1;
    match koto.compile_and_run(src.as_str()) {
        Ok(v) => {
            let shown = koto.value_to_string(v).unwrap_or_default();
            let want = "('str0é0', 1001.5, (1, 2, ()), ('y1', 'y2'), 'x  str1é1')";
            if shown != want {
                faults.push(format!("constants script: got {shown}, want {want}"));
            }
        }
        Err(e) => faults.push(format!("constants script failed: {e}")),
    }
    json!({"ops": ops, "faults": faults})
}
