"""Sanitizer layer of the thorough tiers: AddressSanitizer builds of the worker (nightly,
-Zsanitizer=address) and Miri runs of small workloads. Verdicts are three-valued: a sanitizer
report is a violation, a build failure / timeout is inconclusive, silence is 'held on what ran'."""
import json, os, subprocess
from .report import build, VERIF, HARNESS
from .worker import Worker

ASAN_PROFILE = "x86_64-unknown-linux-gnu/release"
ASAN_ENV = {"ASAN_OPTIONS": "detect_leaks=0:abort_on_error=0:exitcode=77:hard_rss_limit_mb=3000:max_allocation_size_mb=3000", "KV_AS_LIMIT_GIB": "0", "RUST_BACKTRACE": "0"}

def build_asan():
    ok, log = build("asan", "release", toolchain="nightly", extra_env={"RUSTFLAGS": "-Zsanitizer=address -Cforce-frame-pointers=yes"},
                    extra_args=["--target", "x86_64-unknown-linux-gnu"])
    return ok, log

def asan_binary():
    return os.path.join(VERIF, "target-asan", ASAN_PROFILE, "kvrun")

def asan_worker():
    env = dict(os.environ); env.update(ASAN_ENV)
    return Worker(flavour="asan", profile=ASAN_PROFILE, env=env)

def asan_report_in(resp):
    """An exec response of a died ASan worker that carries a sanitizer report."""
    return resp.get("outcome") == "died" and "AddressSanitizer" in (resp.get("detail") or "")

def run_asan(args, timeout=1800):
    """Runs a kvrun subcommand under ASan. Returns (parsed stdout or None, report text or None)."""
    env = dict(os.environ); env.update(ASAN_ENV)
    try:
        p = subprocess.run([asan_binary()] + [str(a) for a in args], stdout=subprocess.PIPE, stderr=subprocess.PIPE, env=env, timeout=timeout)
    except subprocess.TimeoutExpired:
        return None, None
    err = p.stderr.decode("utf-8", "replace")
    report = err[err.find("ERROR: AddressSanitizer"):][:3000] if "ERROR: AddressSanitizer" in err else None
    try:
        return json.loads(p.stdout.decode().strip().split("\n")[-1]), report
    except Exception:
        return None, report

def run_miri(args, arc=False, timeout=3600):
    """cargo +nightly miri run -- <args> in the harness crate. Returns (parsed stdout or None, UB report or None, note)."""
    env = dict(os.environ)
    env["MIRIFLAGS"] = "-Zmiri-disable-isolation"
    env["CARGO_NET_OFFLINE"] = "true"
    cmd = ["cargo", "+nightly", "miri", "run", "--offline", "--target-dir", os.path.join(VERIF, "target-miri-arc" if arc else "target-miri")]
    if arc:
        cmd += ["--no-default-features", "--features", "arc"]
    cmd += ["--"] + [str(a) for a in args]
    try:
        p = subprocess.run(cmd, cwd=HARNESS, stdout=subprocess.PIPE, stderr=subprocess.PIPE, env=env, timeout=timeout)
    except subprocess.TimeoutExpired:
        return None, None, "timeout after %d s" % timeout
    err = p.stderr.decode("utf-8", "replace")
    ub = None
    for marker in ("Undefined Behavior", "error: unsupported operation", "Data race detected"):
        if marker in err:
            ub = err[err.find(marker) - 10:][:3000]
            break
    out = None
    try:
        out = json.loads(p.stdout.decode().strip().split("\n")[-1])
    except Exception:
        pass
    note = "" if out is not None or ub else "exit %d: %s" % (p.returncode, err[-300:])
    return out, ub, note
