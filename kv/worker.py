"""Client side of the kvrun worker protocol (JSON lines over pipes), with restart on death and a
per-request watchdog. Verdict discipline (DESIGN.md 3.5): a worker death is classified by the
banner it printed on stderr; a watchdog expiry is 'hang' (inconclusive), never a violation by
itself."""
import json, os, select, signal, subprocess, tempfile, time

VERIF = os.path.dirname(os.path.dirname(os.path.abspath(__file__)))

def binary(flavour="rc", profile="release"):
    return os.path.join(VERIF, "target-" + flavour, profile, "kvrun")

class WorkerDied(Exception):
    def __init__(self, kind, detail):
        super().__init__(kind + ": " + detail)
        self.kind = kind      # 'stack-overflow' | 'alloc' | 'signal' | 'exit'
        self.detail = detail

class WorkerHang(Exception):
    pass

class Worker:
    def __init__(self, flavour="rc", profile="release", cwd=None, env=None, args=("serve",)):
        self.flavour, self.profile, self.args = flavour, profile, list(args)
        self.own_cwd = cwd is None
        self.cwd = cwd or tempfile.mkdtemp(prefix="kvw-")
        self.env = dict(os.environ)
        self.env["RUST_BACKTRACE"] = "0"
        if env:
            self.env.update(env)
        self.proc = None
        self.restarts = 0
        self.start()

    def start(self):
        self.errfile = tempfile.TemporaryFile()
        self.proc = subprocess.Popen([binary(self.flavour, self.profile)] + self.args, stdin=subprocess.PIPE,
                                     stdout=subprocess.PIPE, stderr=self.errfile, cwd=self.cwd,
                                     env=self.env, bufsize=0)
        self.buf = b""

    def _stderr_tail(self):
        try:
            self.errfile.seek(0)
            data = self.errfile.read()
            return data[:1000].decode("utf-8", "replace") + " ... " + data[-1000:].decode("utf-8", "replace")
        except Exception:
            return ""

    def _classify_death(self):
        rc = self.proc.poll()
        tail = self._stderr_tail()
        if "has overflowed its stack" in tail:
            return WorkerDied("stack-overflow", tail[-300:])
        if "memory allocation of" in tail or "capacity overflow" in tail:
            return WorkerDied("alloc", tail[-300:])
        if rc is not None and rc < 0:
            return WorkerDied("signal", "signal %d; %s" % (-rc, tail[-300:]))
        return WorkerDied("exit", "exit code %s; %s" % (rc, tail[-300:]))

    def restart(self):
        self.kill()
        self.restarts += 1
        self.start()

    def kill(self):
        if self.proc is not None:
            try:
                self.proc.kill()
            except Exception:
                pass
            try:
                self.proc.wait(timeout=5)
            except Exception:
                pass
            for f in (self.proc.stdin, self.proc.stdout):
                try:
                    f.close()
                except Exception:
                    pass
            self.proc = None

    def close(self):
        self.kill()
        if self.own_cwd:
            import shutil
            shutil.rmtree(self.cwd, ignore_errors=True)

    def call(self, req, timeout=20.0):
        """Sends one request and waits for the response. Raises WorkerDied / WorkerHang (the worker
        has been restarted when these are raised)."""
        data = (json.dumps(req) + "\n").encode()
        try:
            self.proc.stdin.write(data)
            self.proc.stdin.flush()
        except (BrokenPipeError, OSError):
            err = self._classify_death()
            self.restart()
            raise err
        deadline = time.monotonic() + timeout
        fd = self.proc.stdout.fileno()
        while True:
            nl = self.buf.find(b"\n")
            if nl >= 0:
                line, self.buf = self.buf[:nl], self.buf[nl + 1:]
                return json.loads(line)
            remaining = deadline - time.monotonic()
            if remaining <= 0:
                self.restart()
                raise WorkerHang()
            r, _, _ = select.select([fd], [], [], min(remaining, 1.0))
            if r:
                chunk = os.read(fd, 1 << 16)
                if not chunk:
                    err = self._classify_death()
                    self.restart()
                    raise err
                self.buf += chunk
            elif self.proc.poll() is not None:
                err = self._classify_death()
                self.restart()
                raise err

    def exec(self, src, timeout=20.0, **kw):
        """Runs a script; returns the response dict. Deaths and hangs come back as
        {'outcome': 'died', 'kind': ...} / {'outcome': 'hang'}"""
        retry_hang = kw.pop("retry_hang", True)
        req = {"op": "exec", "src": src}
        req.update(kw)
        for attempt in ((0, 1) if retry_hang else (1,)):
            try:
                return self.call(req, timeout)
            except WorkerDied as e:
                return {"outcome": "died", "kind": e.kind, "detail": e.detail}
            except WorkerHang:
                # a stall of the whole worker process (loaded machine) looks like a hang of the script: only a script that
                # does not answer twice in a row, on a fresh worker, is reported as hanging
                if attempt == 1:
                    return {"outcome": "hang"}
                self.hang_retries = getattr(self, "hang_retries", 0) + 1
